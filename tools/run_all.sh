#!/bin/bash
# tools/run_all.sh [quick|thorough] : run every registered check once against /repo and validate the evidence files
TIER=${1:-quick}
cd "$(dirname "$0")/.."
rc=0
for i in $(seq -w 1 20); do
  p=C$i
  out=$(./vf check $p --tier $TIER 2>&1 | tail -1)
  code=$(echo "$out" | sed -n 's/.*exit=\([0-9]*\).*/\1/p')
  echo "$p ${code:-?} $out" | cut -c1-260
  [ "$code" = "0" ] || rc=1
done
PYTHONPATH=.deps /venv/bin/python - <<'PY'
import json, jsonschema, glob
schema = json.load(open('/root/.vp/EVIDENCE.schema.json'))
for f in sorted(glob.glob('evidence/C*.json')):
    jsonschema.validate(json.load(open(f)), schema)
print("evidence files valid:", len(glob.glob('evidence/C*.json')))
PY
exit $rc
