#!/usr/bin/env python3
"""Regenerates /verif/MANIFEST.json from the table below (and validates it)."""
import json
import os

VERIF = os.path.dirname(os.path.dirname(os.path.abspath(__file__)))
ALL = [f"C{i:02d}" for i in range(1, 21)]

TECH = ("symbolic execution of the real S-Coda functions on z3 Int/Real proxies (symx): every branch and every "
        "property clause is a check-sat query; path tree exhausted within stated bounds; counterexamples replayed concretely")
NOTE = ("Trusted: z3, CPython, the proxy layer symx/core.py (guarded by per-path concrete cross-validation against the "
        "unshimmed real code) and the listed shims (int() shadowing, np.digitize ite-sum, logging off). Bounded claim: "
        "holds for every value inside the bounds printed in the evidence file, says nothing outside them.")

# property id -> (level text, design section)
def _t(what):
    return ("Bounded symbolic model checking through the real public API: " + what + " Every value inside the stated "
            "bounds is covered by a solver verdict per explored path; shapes/configurations are a concrete case split listed in the evidence.")


CLAIMED = {
    "C01": (_t("tokenise -> encode -> decode -> detokenise on pieces given as explicit symbolic note lists (onsets, durations as symbolic members of the note values, velocities per bin) over the configuration lattice; notes, bar grid and duration compared with formulas of the input."), "4 C01"),
    "C02": (_t("vocabulary bijection by a symbolic id over every configuration's whole vocabulary (solver-driven, complete enumeration), and closure of tokenise output for symbolic notes, rests and signatures."), "4 C02"),
    "C03": (_t("real sequences_split_bars, then every composition of the bar list into call groups threading one state dictionary, compared with the single-call stream; plus the carried-clock lemma with an unbounded symbolic clock."), "4 C03"),
    "C19": (_t("get_info against detokenise on every vocabulary stream up to the length bound, typed stream families and tokenise-produced streams (note placement identified by prefix difference through the public API)."), "4 C19"),
    "C04": ("Bounded symbolic model checking of ONE inductive step from every freshness state (each reached through public calls, the "
            "stale slot holding an unrelated sequence) over a 39-operation alphabet with symbolic arguments: readability, agreement of the "
            "two raw views, and independence of the result from the freshness state (differential). Covers histories of any length by "
            "induction over the invariant, within the state-size bound.", "4 C04"),
    "C09": (_t("sequences_split_bars over concrete signature/key plans with symbolic note onsets and durations (crossing bar lines is the solver's choice), re-quantisation on and off."), "4 C09"),
    "C15": (_t("merge of 2-3 inputs with symbolic ticks (overlap / abutting / containment decided by the solver): roll union, alternation, duration, signatures in force, order independence."), "4 C15"),
    "C05": (_t("quantise with concrete step lists and symbolic ticks: grid membership, displacement (by message identity), pairing, overlap, event and survival clauses."), "4 C05"),
    "C06": (_t("quantise_note_lengths with concrete value lists, extension on/off and symbolic onsets/durations/gaps: allowed durations, fixed onsets, closest fitting value, removal iff nothing fits."), "4 C06"),
    "C16": (_t("one public operation on either side after every derivation route (copy at every level, split, bar splitting); value snapshots through both raw views."), "4 C16"),
    "C07": (_t("normalise on every message sequence up to the length bound with symbolic waits, pitches, channels, signatures and probe tick."), "4 C07"),
    "C08": (_t("split with symbolic capacities, waits, pitches, channels and probe tick; piano-roll, duration, event and aliasing clauses."), "4 C08"),
    "C10": (_t("Bar construction with symbolic waits (shorter/equal/longer than capacity) and symbolic signature events."), "4 C10"),
    "C11": (_t("type discipline of tick values (proxy sort tracking Int vs Real) after every operation of the alphabet."), "4 C11"),
    "C12": (_t("sequences_save + sequences_load with symbolic ticks, pitches and velocities; the mido file layer is an in-memory hand-over on symbolic paths and the real file on disk in every path's concrete replay."), "4 C12"),
    "C13": (_t("parse_mido + convert on directly constructed mido objects: routing over 9 groupings with symbolic delta times, and the nearest-tick clause for resolutions where the rescale arithmetic is certified exact."), "4 C13"),
    "C14": (_t("Sequence.transpose / Bar.transpose with symbolic pitches and intervals, key signatures checked against an independent tonic table."), "4 C14"),
    "C17": (_t("equals on identical, re-ordered, re-represented and singly perturbed pairs under all 16 flag combinations."), "4 C17"),
    "C18": (_t("pad / cutoff / scale / set_channel with symbolic waits and arguments."), "4 C18"),
    "C20": ("Symbolic execution of transpose_key and the CircleOfFifths functions with UNBOUNDED symbolic integers: the code only "
            "branches on residues mod 12, every residue path is decided by z3 for all integers of that class, against an independent "
            "tonic/fifths reference.", "4 C20"),
}

PENDING = "check not built yet in this revision (solver-based harness under construction; see DESIGN.md section 4)"


def main():
    checks = []
    for pid in ALL:
        if pid not in CLAIMED:
            continue
        text, ref = CLAIMED[pid]
        checks.append({
            "property_id": pid,
            "quick_cmd": f"./vf check {pid} --tier quick",
            "thorough_cmd": f"./vf check {pid} --tier thorough",
            "evidence_file": f"evidence/{pid}.json",
            "replay_cmd_template": "./vf replay {path}",
            "engine": "symx",
            "level_claimed": {"category": "model_checking", "text": text, "design_ref": f"DESIGN.md section {ref}"},
            "level_note": NOTE,
            "technique": TECH,
        })
    na_path = os.path.join(VERIF, "tools", "not_applicable.json")
    na = json.load(open(na_path)) if os.path.exists(na_path) else {}
    man = {
        "version": 1,
        "setup_cmd": "./vf ensure-env",
        "hooks": {
            "guard": "SCODA_VERIF",
            "enable": "no source hooks are needed: the harness patches module globals of the imported scoda modules at run time (symx/shims.py); ./vf exports SCODA_VERIF=1 for uniformity",
            "baseline_off_cmd": "cd /repo && /venv/bin/python -m pytest -ra -q -p no:cacheprovider --timeout=900 --continue-on-collection-errors",
            "source_commits": [],
            "add_only": True,
        },
        "engines": [
            {"name": "symx", "path": "symx/", "serves_properties": sorted(CLAIMED),
             "kind_free_text": "proxy-based symbolic executor for CPython on z3 (Int/Real), DFS over solver-decided branch decisions with re-execution, clause discharge by check-sat, per-path concrete cross-validation"},
            {"name": "kern", "path": "symx/kern.py", "serves_properties": ["C03", "C04", "C05", "C06", "C09", "C11", "C16"],
             "kind_free_text": "Python-AST -> z3 translator; ite-merged summary of find_minimal_distance regenerated from the repository source on every run"},
            {"name": "fpkern", "path": "symx/fpkern.py", "serves_properties": ["C13"],
             "kind_free_text": "slices the rescale statements of MidiFile.convert from its AST and decides the nearest-tick clause in QF_BVFP (IEEE-754 double) with z3"},
            {"name": "crosshair", "path": "props/c20.py", "serves_properties": ["C20"],
             "kind_free_text": "crosshair-tool 0.0.110 as an independent second opinion on the pure key / circle-of-fifths functions (counterexamples replayed; 'not confirmed' only recorded)"},
        ],
        "checks": checks,
        "not_applicable": [{"property_id": p, "reason": na.get(p, PENDING)} for p in ALL if p not in CLAIMED],
        "notes": "Exit codes: 0 held within bounds; 1 VIOLATION (replayed concretely); 2 INCONCLUSIVE (solver unknown / budget / float-inexact); 3 HARNESS-ERROR. Findings: known_findings.json.",
    }
    json.dump(man, open(os.path.join(VERIF, "MANIFEST.json"), "w"), indent=1)
    try:
        import jsonschema
        jsonschema.validate(man, json.load(open("/root/.vp/MANIFEST.schema.json")))
        print("MANIFEST.json valid;", len(checks), "checks")
    except ImportError:
        print("MANIFEST.json written (jsonschema not available)")


if __name__ == "__main__":
    main()
