#!/bin/bash
# Confirms one seeded change produced by an independent agent:  tools/confirm_mutant.sh C06 m1
# - scratch worktree of /repo HEAD under /tmp/cw (removed afterwards)
# - demo passes without the change, fails with it; the existing test suite passes with it
# - on success the change is stored as /verif/seeded/<prop>-<m>/ (patch.diff, demo.py, meta.json)
set -u
P=$1; M=$2; BASE=${3:-/tmp/wt}; TAG=${4:-}
SRC=$BASE/$P/_mutant
W=/tmp/cw/$P-$TAG$M
OUT=/verif/seeded/$P-$TAG$M
mkdir -p /tmp/cw
git -C /repo worktree add --detach -q $W HEAD || exit 2
cleanup() { git -C /repo worktree remove --force $W 2>/dev/null; rm -rf $W; }
trap cleanup EXIT
cd $W
PYTHONPATH=$W /venv/bin/python $SRC/demo_$M.py >/tmp/cw/$P-$TAG$M.demo0.log 2>&1; d0=$?
if ! git apply $SRC/$M.diff 2>/tmp/cw/$P-$TAG$M.apply.log; then
  if ! patch -p1 -s < $SRC/$M.diff >>/tmp/cw/$P-$TAG$M.apply.log 2>&1; then echo "$P-$TAG$M: PATCH DOES NOT APPLY"; exit 1; fi
fi
git diff -- scoda > /tmp/cw/$P-$TAG$M.patch
PYTHONPATH=$W /venv/bin/python $SRC/demo_$M.py >/tmp/cw/$P-$TAG$M.demo1.log 2>&1; d1=$?
PYTHONPATH=$W timeout 3000 /venv/bin/python -m pytest -q -p no:cacheprovider --timeout=900 > /tmp/cw/$P-$TAG$M.pytest.log 2>&1; t=$?
summary=$(tail -1 /tmp/cw/$P-$TAG$M.pytest.log)
echo "$P-$TAG$M: demo_without=$d0 demo_with=$d1 pytest_exit=$t ($summary)"
if [ $d0 -eq 0 ] && [ $d1 -ne 0 ] && [ $t -eq 0 ]; then
  mkdir -p $OUT
  cp /tmp/cw/$P-$TAG$M.patch $OUT/patch.diff
  cp $SRC/demo_$M.py $OUT/demo.py
  cp $SRC/notes.md $OUT/notes.md
  python3 - "$P" "$M" "$summary" "$OUT" <<'PY'
import json,sys
p,m,summary=sys.argv[1:4]
json.dump({"property":[p],"reverse":False,"origin":f"independent sub-agent given only the text of {p} and a scratch worktree",
  "what":f"see notes.md (change {m})","needs":f"see notes.md (change {m})",
  "ran":f"tools/confirm_mutant.sh {p} {m}: demo exits 0 without the change and non-zero with it; test suite with the change: {summary}"},
  open(sys.argv[4]+"/meta.json","w"),indent=1)
PY
  echo "$P-$TAG$M: CONFIRMED -> $OUT"
else
  echo "$P-$TAG$M: NOT CONFIRMED"
fi
