#!/bin/bash
# tools/try_patch.sh <diff> <PROP> [tier] : run a check against a scratch copy of /repo/scoda with the diff applied
D=$(mktemp -d /tmp/trypatch-XXXX); cp -r /repo/scoda $D/; (cd $D && patch -p1 -s < $1) || { echo PATCH-FAILED; rm -rf $D; exit 2; }
VERIF_REPO=$D VERIF_JOBS=${VERIF_JOBS:-8} /verif/vf check $2 --tier ${3:-quick} --no-evidence 2>&1 | tail -${TAIL:-4}; rm -rf $D
