"""IEEE-754 part of C13: the statements of MidiFile.convert that compute the scaling factor, accumulate the
running position and round it are sliced out of the CURRENT source (ast) and translated to Float64 terms over
bit-vector delta times (QF_BVFP).  The clause `2*|pos*ppq - 24*T| <= ppq` (T = exact sum of the deltas) is then
decided by z3 for every delta vector inside the bound.  If the slice cannot be located (the code was restructured)
the result is `inconclusive` for this sub-check only.  DESIGN.md section 4 C13."""
from __future__ import annotations

import ast
import inspect
import textwrap
import time

import z3


class SliceError(Exception):
    pass


def _find_slice(convert_fn):
    src = textwrap.dedent(inspect.getsource(convert_fn))
    fn = ast.parse(src).body[0]
    sf = inc = rnd = None
    reset_ok = False
    for node in ast.walk(fn):
        if isinstance(node, ast.Assign) and len(node.targets) == 1 and isinstance(node.targets[0], ast.Name):
            name = node.targets[0].id
            if name == "scaling_factor":
                sf = node.value
            elif name == "current_point_in_time" and isinstance(node.value, ast.Constant) and node.value.value == 0:
                reset_ok = True
    # the message loop: a For whose body holds `current_point_in_time += ...` directly followed by the rounding
    for node in ast.walk(fn):
        if isinstance(node, ast.For):
            body = node.body
            for i, st in enumerate(body):
                if isinstance(st, ast.AugAssign) and isinstance(st.target, ast.Name) and st.target.id == "current_point_in_time" \
                        and isinstance(st.op, ast.Add):
                    inc = st.value
                    for nx in body[i + 1:]:
                        if isinstance(nx, ast.Assign) and isinstance(nx.targets[0], ast.Name) \
                                and nx.targets[0].id == "rounded_point_in_time":
                            rnd = nx.value
                            break
    if sf is None or inc is None or rnd is None or not reset_ok:
        raise SliceError("rescale statements not found in MidiFile.convert (scaling_factor / current_point_in_time += / "
                         "rounded_point_in_time = round(...))")
    # every use of the rounded value: positions must come from rounded_point_in_time only
    uses_other = [n for n in ast.walk(fn) if isinstance(n, ast.keyword) and n.arg == "time"
                  and not (isinstance(n.value, ast.Name) and n.value.id == "rounded_point_in_time")
                  and not (isinstance(n.value, ast.Constant) and n.value.value == 0)]
    if uses_other:
        raise SliceError("an event time in convert is not taken from rounded_point_in_time")
    return sf, inc, rnd, ast.unparse(sf), ast.unparse(inc), ast.unparse(rnd)


F64 = z3.Float64()
RNE = z3.RNE()


class Tr:
    """expression translator: python int / float semantics on z3 terms ('i', bv64) or ('f', fp64)"""

    def __init__(self, env):
        self.env = env

    def to_f(self, v):
        k, e = v
        if k == "f":
            return e
        return z3.fpSignedToFP(RNE, e, F64)

    def ev(self, n):
        if isinstance(n, ast.Constant) and isinstance(n.value, int):
            return ("i", z3.BitVecVal(n.value, 64))
        if isinstance(n, ast.Constant) and isinstance(n.value, float):
            return ("f", z3.FPVal(n.value, F64))
        if isinstance(n, ast.Name):
            if n.id in self.env:
                return self.env[n.id]
            raise SliceError(f"unknown name {n.id}")
        if isinstance(n, ast.Attribute):
            key = ast.unparse(n)
            if key in self.env:
                return self.env[key]
            raise SliceError(f"unknown attribute {key}")
        if isinstance(n, ast.BinOp):
            a, b = self.ev(n.left), self.ev(n.right)
            if isinstance(n.op, ast.Div):
                return ("f", z3.fpDiv(RNE, self.to_f(a), self.to_f(b)))
            both_int = a[0] == "i" and b[0] == "i"
            if isinstance(n.op, ast.Mult):
                return ("i", a[1] * b[1]) if both_int else ("f", z3.fpMul(RNE, self.to_f(a), self.to_f(b)))
            if isinstance(n.op, ast.Add):
                return ("i", a[1] + b[1]) if both_int else ("f", z3.fpAdd(RNE, self.to_f(a), self.to_f(b)))
            if isinstance(n.op, ast.Sub):
                return ("i", a[1] - b[1]) if both_int else ("f", z3.fpSub(RNE, self.to_f(a), self.to_f(b)))
            raise SliceError("operator " + type(n.op).__name__)
        if isinstance(n, ast.Call) and isinstance(n.func, ast.Name) and n.func.id == "round" and len(n.args) == 1:
            a = self.ev(n.args[0])
            if a[0] == "i":
                return a
            return ("i", z3.fpToSBV(z3.RTZ(), z3.fpRoundToIntegral(RNE, a[1]), z3.BitVecSort(64)))
        if isinstance(n, ast.Call) and isinstance(n.func, ast.Name) and n.func.id in ("int", "float") and len(n.args) == 1:
            a = self.ev(n.args[0])
            if n.func.id == "float":
                return ("f", self.to_f(a))
            if a[0] == "i":
                return a
            return ("i", z3.fpToSBV(z3.RTZ(), z3.fpRoundToIntegral(z3.RTZ(), a[1]), z3.BitVecSort(64)))
        raise SliceError("expression " + ast.dump(n)[:80])


def check(convert_fn, ppq, k, bits, library_ppqn=24, timeout_s=900):
    """-> dict(status held|violated|inconclusive, ...)"""
    t0 = time.time()
    try:
        sf, inc, rnd, s_sf, s_inc, s_rnd = _find_slice(convert_fn)
    except (SliceError, OSError, TypeError, SyntaxError) as ex:
        return {"status": "inconclusive", "reason": str(ex), "ppq": ppq, "k": k, "bits": bits}
    deltas = [z3.BitVec(f"delta{i}", 64) for i in range(k)]
    s = z3.Solver()
    s.set("timeout", int(timeout_s * 1000))
    for d in deltas:
        s.add(z3.ULT(d, z3.BitVecVal(1 << bits, 64)))
    try:
        env = {"PPQN": ("i", z3.BitVecVal(library_ppqn, 64)), "self.PPQN": ("i", z3.BitVecVal(ppq, 64))}
        env["scaling_factor"] = Tr(env).ev(sf)
        cur = ("i", z3.BitVecVal(0, 64))
        bad = []
        total = z3.BitVecVal(0, 64)
        for i in range(k):
            env2 = dict(env)
            env2["msg.time"] = ("i", deltas[i])
            env2["current_point_in_time"] = cur
            incv = Tr(env2).ev(inc)
            both_int = cur[0] == "i" and incv[0] == "i"
            cur = ("i", cur[1] + incv[1]) if both_int else ("f", z3.fpAdd(RNE, Tr(env2).to_f(cur), Tr(env2).to_f(incv)))
            env2["current_point_in_time"] = cur
            pos = Tr(env2).ev(rnd)
            if pos[0] != "i":
                raise SliceError("rounded position is not an integer")
            total = total + deltas[i]
            diff = pos[1] * ppq - library_ppqn * total
            ad = z3.If(diff >= 0, diff, -diff)
            bad.append(2 * ad > ppq)
    except SliceError as ex:
        return {"status": "inconclusive", "reason": str(ex), "ppq": ppq, "k": k, "bits": bits}
    s.add(z3.Or(*bad))
    r = s.check()
    out = {"ppq": ppq, "k": k, "bits": bits, "solver_s": round(time.time() - t0, 2),
           "sliced": {"scaling_factor": s_sf, "increment": s_inc, "rounding": s_rnd}}
    if r == z3.unsat:
        out["status"] = "held"
    elif r == z3.sat:
        m = s.model()
        out["status"] = "violated"
        out["deltas"] = [m.eval(d, model_completion=True).as_long() for d in deltas]
    else:
        out["status"] = "inconclusive"
        out["reason"] = "solver " + s.reason_unknown()
    return out


def replay(ppq, deltas, library_ppqn=24):
    """concrete replay through the real loader: a one-track file with notes at the given delta times"""
    import mido
    from scoda.midi.midi_file import MidiFile
    from scoda.sequences.sequence import Sequence
    from scoda.enumerations.message_type import MessageType as MT
    mf = mido.MidiFile()
    mf.ticks_per_beat = ppq
    tr = mido.MidiTrack()
    total = 0
    exact = []
    for i, d in enumerate(deltas):
        tr.append(mido.MetaMessage("time_signature", numerator=2 + i, denominator=4, time=d))
        total += d
        exact.append((2 + i, total))
    tr.append(mido.MetaMessage("end_of_track", time=0))
    mf.tracks.append(tr)
    smf = MidiFile()
    smf.parse_mido(mf)
    seqs = Sequence.sequences_load(midi_file=smf)
    worst = 0
    for num, t in exact:
        got = [m.time for m in seqs[0].abs._messages if m.message_type == MT.TIME_SIGNATURE and m.numerator == num]
        if not got:
            return True, f"signature {num}/4 at file tick {t} not loaded"
        err2 = min(2 * abs(g * ppq - library_ppqn * t) for g in got)
        if err2 > ppq:
            return True, f"event at file tick {t} (exact {library_ppqn * t / ppq}) loaded at {got}"
    return False, "within half a tick"
