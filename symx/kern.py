"""kern: Python-AST -> z3 translator for small arithmetic leaf functions, regenerated from the repository's
current source on every run.  Used to install an ite-merged *summary* of
scoda.misc.util.find_minimal_distance: the caller then forks only on the distinct results, not on how the
comparisons inside interleave.  DESIGN.md 2.4.

Subset: assignments, `for i, x in enumerate(<list argument>)` (unrolled over the concrete length),
if / nested if, return, abs(), + - , comparisons, math.inf, integer constants.  Anything else raises
Unsupported and the harness falls back to executing the real function path by path.
"""
from __future__ import annotations

import ast
import inspect
import math
import random
import textwrap

import z3

from . import core
from .core import SymFloat, SymInt


class Unsupported(Exception):
    pass


class V:
    """value: +inf when `inf` (z3 Bool or python bool) holds, else the numeric term `e` (z3 Int/Real or python number)"""
    __slots__ = ("e", "inf")

    def __init__(self, e, inf=False):
        self.e = e
        self.inf = inf


def _zb(b):
    return z3.BoolVal(b) if isinstance(b, bool) else b


def _ite(c, a, b):
    if isinstance(c, bool):
        return a if c else b
    return z3.If(c, a, b)


def _and(*xs):
    xs = [x for x in xs if x is not True]
    if any(x is False for x in xs):
        return False
    if not xs:
        return True
    return z3.And(*xs) if len(xs) > 1 else xs[0]


def _or(*xs):
    xs = [x for x in xs if x is not False]
    if any(x is True for x in xs):
        return True
    if not xs:
        return False
    return z3.Or(*xs) if len(xs) > 1 else xs[0]


def _not(x):
    if isinstance(x, bool):
        return not x
    return z3.Not(x)


def _num(e):
    return z3.IntVal(e) if isinstance(e, int) and not isinstance(e, bool) else e


def merge(c, a: V, b: V):
    if isinstance(c, bool):
        return a if c else b
    inf = False
    if a.inf is not False or b.inf is not False:
        inf = z3.If(c, _zb(a.inf), _zb(b.inf))
    return V(z3.If(c, _num(a.e), _num(b.e)), inf)


class Summary:
    def __init__(self, fn):
        self.fn = fn
        src = textwrap.dedent(inspect.getsource(fn))
        self.tree = ast.parse(src).body[0]
        if not isinstance(self.tree, ast.FunctionDef):
            raise Unsupported("not a function")
        self.args = [a.arg for a in self.tree.args.args]
        self.source_hash = hash(src)

    # ---- expression evaluation
    def ev(self, node, env):
        if isinstance(node, ast.Constant):
            if isinstance(node.value, bool) or not isinstance(node.value, (int,)):
                raise Unsupported(f"constant {node.value!r}")
            return V(node.value)
        if isinstance(node, ast.Name):
            if node.id not in env:
                raise Unsupported(f"name {node.id}")
            return env[node.id]
        if isinstance(node, ast.Attribute):
            if isinstance(node.value, ast.Name) and node.value.id == "math" and node.attr == "inf":
                return V(0, True)
            raise Unsupported("attribute")
        if isinstance(node, ast.BinOp):
            a, b = self.ev(node.left, env), self.ev(node.right, env)
            if a.inf is not False or b.inf is not False:
                raise Unsupported("arithmetic on possibly infinite value")
            if isinstance(node.op, ast.Sub):
                return V(_num(a.e) - _num(b.e))
            if isinstance(node.op, ast.Add):
                return V(_num(a.e) + _num(b.e))
            raise Unsupported("binop")
        if isinstance(node, ast.UnaryOp) and isinstance(node.op, ast.USub):
            a = self.ev(node.operand, env)
            if a.inf is not False:
                raise Unsupported("neg inf")
            return V(-_num(a.e))
        if isinstance(node, ast.Call):
            if isinstance(node.func, ast.Name) and node.func.id == "abs" and len(node.args) == 1:
                a = self.ev(node.args[0], env)
                if a.inf is not False:
                    raise Unsupported("abs inf")
                e = _num(a.e)
                return V(z3.If(e >= 0, e, -e))
            raise Unsupported("call")
        raise Unsupported(type(node).__name__)

    def cond(self, node, env):
        if isinstance(node, ast.Compare) and len(node.ops) == 1:
            a, b = self.ev(node.left, env), self.ev(node.comparators[0], env)
            op = node.ops[0]
            ae, be = _num(a.e), _num(b.e)
            fin = _and(_not(a.inf), _not(b.inf))
            if isinstance(op, ast.Lt):
                return _or(_and(_not(a.inf), b.inf), _and(fin, ae < be))
            if isinstance(op, ast.LtE):
                return _or(b.inf, _and(fin, ae <= be))
            if isinstance(op, ast.Gt):
                return _or(_and(a.inf, _not(b.inf)), _and(fin, ae > be))
            if isinstance(op, ast.GtE):
                return _or(a.inf, _and(fin, ae >= be))
            if isinstance(op, ast.Eq):
                return _or(_and(a.inf, b.inf), _and(fin, ae == be))
            if isinstance(op, ast.NotEq):
                return _not(_or(_and(a.inf, b.inf), _and(fin, ae == be)))
        raise Unsupported("condition")

    # ---- statements with state merging; st = {"env":..., "ret": (returned_cond, value)}
    def block(self, stmts, env, guard, ret):
        for s in stmts:
            env, ret = self.stmt(s, env, guard, ret)
        return env, ret

    def stmt(self, s, env, guard, ret):
        live = _and(guard, _not(ret[0]))
        if isinstance(s, ast.Expr) and isinstance(s.value, ast.Constant):
            return env, ret       # docstring
        if isinstance(s, ast.Assign) and len(s.targets) == 1 and isinstance(s.targets[0], ast.Name):
            v = self.ev(s.value, env)
            name = s.targets[0].id
            env = dict(env)
            env[name] = merge(live, v, env[name]) if name in env and live is not True else v
            return env, ret
        if isinstance(s, ast.Return):
            v = self.ev(s.value, env)
            if v.inf is not False:
                raise Unsupported("return inf")
            rc, rv = ret
            nv = _ite(live, _num(v.e), rv) if rv is not None else _num(v.e)
            return env, (_or(rc, live), nv)
        if isinstance(s, ast.If):
            c = self.cond(s.test, env)
            e1, r1 = self.block(s.body, env, _and(guard, c), ret)
            e2, r2 = self.block(s.orelse, e1, _and(guard, _not(c)), r1)
            return e2, r2
        if isinstance(s, ast.For):
            it = s.iter
            if not (isinstance(it, ast.Call) and isinstance(it.func, ast.Name) and it.func.id == "enumerate"
                    and len(it.args) == 1 and isinstance(it.args[0], ast.Name)
                    and isinstance(s.target, ast.Tuple) and len(s.target.elts) == 2 and not s.orelse):
                raise Unsupported("for shape")
            coll = env.get("@list:" + it.args[0].id)
            if coll is None:
                raise Unsupported("for over non-list argument")
            iname, xname = s.target.elts[0].id, s.target.elts[1].id
            for i, x in enumerate(coll):
                env = dict(env)
                env[iname] = V(i)
                env[xname] = x
                env, ret = self.block(s.body, env, guard, ret)
            return env, ret
        raise Unsupported(type(s).__name__)

    def term(self, element, collection):
        """-> z3 Int term of the result for numeric z3/python `element` and list `collection`"""
        env = {self.args[0]: V(element), "@list:" + self.args[1]: [V(c) for c in collection]}
        env, ret = self.block(self.tree.body, env, True, (False, None))
        if ret[1] is None:
            raise Unsupported("no return")
        return ret[1]


def _raw(x):
    """proxy / number -> z3 term or python int; floats (non-integral) unsupported"""
    if isinstance(x, SymInt):
        return x.expr
    if isinstance(x, bool):
        return int(x)
    if isinstance(x, int):
        return x
    if isinstance(x, float) and x.is_integer():
        return int(x)
    raise Unsupported(f"operand {type(x).__name__}")


class MergedFMD:
    """drop-in replacement for find_minimal_distance while a symbolic path runs"""

    def __init__(self, real_fn, max_len=8):
        self.real = real_fn
        self.max_len = max_len
        self.ok = True
        self.reason = ""
        self.calls_merged = 0
        self.calls_fallback = 0
        try:
            self.summary = Summary(real_fn)
        except (Unsupported, OSError, TypeError, SyntaxError) as ex:
            self.ok = False
            self.reason = f"{type(ex).__name__}: {ex}"

    def __call__(self, element, collection):
        if not self.ok or len(collection) > self.max_len \
                or not (core.is_sym(element) or any(core.is_sym(c) for c in collection)):
            return self.real(element, collection)
        try:
            t = self.summary.term(_raw(element), [_raw(c) for c in collection])
        except Unsupported as ex:
            self.calls_fallback += 1
            return self.real(element, collection)
        self.calls_merged += 1
        if isinstance(t, int):
            return t
        return SymInt(t, (0, max(0, len(collection) - 1)))

    def validate(self, n=400, seed=0):
        """push concrete vectors through both the real function and the term"""
        if not self.ok:
            return {"ok": False, "reason": self.reason}
        rnd = random.Random(seed)
        vectors = [(5, [1, 9]), (5, [9, 1]), (0, [0]), (7, [7, 7, 7]), (3, [1, 5]), (3, [5, 1]), (10, [24, 12, 6, 16, 8, 4]),
                   (11, [4, 6, 8, 9, 12, 16, 18, 24, 36]), (0, [])]
        for _ in range(n):
            k = rnd.randint(0, 8)
            vectors.append((rnd.randint(-5, 60), [rnd.randint(-5, 60) for _ in range(k)]))
        for el, col in vectors:
            want = self.real(el, col)
            try:
                t = self.summary.term(el, list(col))
            except Unsupported as ex:
                self.ok = False
                self.reason = f"Unsupported: {ex}"
                return {"ok": False, "reason": self.reason}
            got = t if isinstance(t, int) else z3.simplify(t).as_long()
            if got != want:
                self.ok = False
                self.reason = f"translator disagrees with the real function on {(el, col)}: {got} vs {want}"
                return {"ok": False, "reason": self.reason}
        return {"ok": True, "vectors": len(vectors)}
