"""Mutant self-test: applies each seeded patch to a scratch copy of the repository (under $TMPDIR, removed
afterwards) and requires the claimed property's check to exit 1 with a VIOLATION line.
Usage: ./vf selftest [--tier quick|thorough] [--jobs N] [name ...]      (names = directories under seeded/)"""
from __future__ import annotations

import json
import os
import shutil
import subprocess
import sys
import tempfile
import time

VERIF = os.path.dirname(os.path.dirname(os.path.abspath(__file__)))
REPO = os.path.realpath(os.environ.get("VERIF_REPO", "/repo"))


def run_one(name, tier):
    d = os.path.join(VERIF, "seeded", name)
    meta = json.load(open(os.path.join(d, "meta.json")))
    props = meta["property"] if isinstance(meta["property"], list) else [meta["property"]]
    tmp = tempfile.mkdtemp(prefix="scoda-mut-")
    out = []
    try:
        shutil.copytree(os.path.join(REPO, "scoda"), os.path.join(tmp, "scoda"))
        args = ["patch", "-p1", "-s", "-d", tmp, "-i", os.path.join(d, "patch.diff")]
        if meta.get("reverse"):
            args.insert(1, "-R")
        r = subprocess.run(args, capture_output=True, text=True)
        if r.returncode != 0:
            return [(name, p, "PATCH-FAILED", r.stdout + r.stderr) for p in props]
        for p in props:
            t0 = time.time()
            env = dict(os.environ, VERIF_REPO=tmp, VERIF_JOBS=os.environ.get("VERIF_SELFTEST_JOBS", "8"))
            r = subprocess.run([os.path.join(VERIF, "vf"), "check", p, "--tier", tier, "--no-evidence"],
                               capture_output=True, text=True, env=env)
            viol = [ln for ln in r.stdout.splitlines() if ln.startswith("VIOLATION")]
            status = "CAUGHT" if r.returncode == 1 and viol else f"MISSED(exit={r.returncode})"
            tail = "\n".join(r.stdout.splitlines()[-6:])
            out.append((name, p, status, f"{time.time() - t0:.0f}s " + tail))
    finally:
        shutil.rmtree(tmp, ignore_errors=True)
    return out


def main(argv):
    tier = "quick"
    names = []
    verbose = False
    i = 0
    while i < len(argv):
        if argv[i] == "--tier":
            tier = argv[i + 1]
            i += 2
        elif argv[i] == "-v":
            verbose = True
            i += 1
        else:
            names.append(argv[i])
            i += 1
    if not names:
        names = sorted(n for n in os.listdir(os.path.join(VERIF, "seeded"))
                       if os.path.exists(os.path.join(VERIF, "seeded", n, "meta.json")))
    bad = 0
    for n in names:
        for name, p, status, info in run_one(n, tier):
            print(f"{status:16s} {name} [{p}]")
            if verbose or not status.startswith("CAUGHT"):
                print("    " + info.replace("\n", "\n    "))
            if not status.startswith("CAUGHT"):
                bad += 1
    return 1 if bad else 0
