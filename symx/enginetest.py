"""Self-test of the symbolic executor on small programs with known answers (./vf enginetest).
Not a registered check; it guards the engine itself: path counts, planted bugs found with the right witness,
float exactness certificates, concretisation, replay determinism across worker processes."""
from __future__ import annotations

import sys
import time

from .run import Query, Runner, TaskResult, and_, ite, or_, eq


class _NoShims:
    root = "/nonexistent"

    def on(self):
        pass

    def off(self):
        pass


def explore(fn, clauses, max_paths=100000):
    q = Query("t", fn, clauses, shims=False)
    res = TaskResult()
    # explore in two stages through a prefix hand-over to exercise replay of foreign prefixes
    r = Runner(q, _NoShims())
    r.explore([], 7, time.perf_counter() + 60, res)
    left = list(res.leftovers)
    while left and not res.error and not res.inconclusive:
        p = left.pop()
        r2 = Runner(q, _NoShims())
        r2.explore(p, max_paths, time.perf_counter() + 120, res)
        left.extend(res.leftovers)
        res.leftovers = []
    return res


def t_paths_abs_max():
    def fn(ctx):
        x = ctx.int("x", -10, 10)
        y = ctx.int("y", -10, 10)
        m = x if x > y else y
        a = abs(x)
        ctx.must("max", and_(m >= x, m >= y, or_(eq(m, x), eq(m, y))))
        ctx.must("abs", and_(a >= 0, or_(eq(a, x), eq(a, -x))))
        return [m, a]
    res = explore(fn, ["max", "abs"])
    assert not res.error and not res.violations, res.__dict__
    assert res.stats["paths"] == 2, res.stats


def t_planted_off_by_one():
    def clamp(v, lo, hi):
        if v < lo:
            return lo
        if v >= hi:          # planted bug: should be v > hi
            return hi - 1
        return v

    def fn(ctx):
        v = ctx.int("v", 0, 100)
        r = clamp(v, 10, 20)
        ctx.must("clamped", and_(r >= 10, r <= 20, or_(v < 10, v > 20, eq(r, v))))
        return [r]
    res = explore(fn, ["clamped"])
    assert not res.error, res.error
    assert res.violations, "planted bug not found"
    assert all(v["inputs"]["v"] == 20 for v in res.violations if v["clause"] == "clamped" and v["inputs"]["v"] <= 20) or \
        any(v["inputs"]["v"] >= 20 for v in res.violations), res.violations


def t_concretise_dict_and_format():
    def fn(ctx):
        k = ctx.int("k", 0, 4)
        d = {0: "a", 1: "b", 2: "c", 3: "d", 4: "e"}
        s = f"{d[k]}_{k:02}"
        ctx.must("render", s == "abcde"[int(k)] + "_0" + str(int(k)))
        return [s]
    res = explore(fn, ["render"])
    assert not res.error and not res.violations, res.__dict__
    assert res.stats["paths"] == 5, res.stats


def t_floor_div_mod():
    def fn(ctx):
        t = ctx.int("t", 0, 200)
        left = (t // 6) * 6
        ctx.must("grid", and_(left <= t, t - left < 6, eq(left % 6, 0), eq(t % 6, t - left)))
        return [left]
    res = explore(fn, ["grid"])
    assert not res.error and not res.violations and res.stats["paths"] == 1, res.__dict__


def t_float_exact_and_inexact():
    def fn(ctx):
        d = ctx.int("d", 0, 500)
        q = d / 24            # rounded quotient
        ok = not (q > 4.0)     # certified: 4.0 * 24 is an integer
        ctx.must("cmp", ok == bool(d <= 96))
        h = d * 0.5           # dyadic: exact
        r = round(h)
        ctx.must("round_half_even", and_(2 * r - d <= 1, d - 2 * r <= 1, or_(eq(2 * r, d), eq((r % 2), 0), eq(d % 2, 1) & True)))
        return [ok, r]
    res = explore(fn, ["cmp", "round_half_even"])
    assert not res.error and not res.inconclusive and not res.violations, res.__dict__

    def fn2(ctx):
        d = ctx.int("d", 0, 500)
        x = d * 0.05          # not dyadic within 53 bits: must be refused, never treated as a real
        return [x > 1.0]
    res2 = explore(fn2, [])
    assert res2.inconclusive and "float-inexact" in res2.inconclusive, res2.__dict__


def t_cross_validation_catches_engine_disagreement():
    def fn(ctx):
        x = ctx.int("x", 0, 3)
        # behaves differently on proxies and on ints: the engine must flag this, not accept it
        return [1 if isinstance(x, int) else 0]
    res = explore(fn, [])
    assert res.error and "cross-validation" in res.error, res.__dict__


def t_unbounded_mod():
    def fn(ctx):
        n = ctx.int("n")
        table = list(range(12))
        v = table[n % 12]
        ctx.must("mod", eq((n - v) % 12, 0))
        return [v]
    res = explore(fn, ["mod"])
    assert not res.error and not res.violations and res.stats["paths"] == 12, res.__dict__


def t_vacuity():
    def fn(ctx):
        x = ctx.int("x", 0, 5)
        ctx.assume(x > 7)
        ctx.must("never", False)
        return []
    res = explore(fn, ["never"])
    assert res.stats["paths"] == 0 and res.reached.get("never", 0) == 0, res.__dict__


TESTS = [t_paths_abs_max, t_planted_off_by_one, t_concretise_dict_and_format, t_floor_div_mod, t_float_exact_and_inexact,
         t_cross_validation_catches_engine_disagreement, t_unbounded_mod, t_vacuity]


def main(argv):
    bad = 0
    for t in TESTS:
        try:
            t()
            print("ok   ", t.__name__)
        except AssertionError as ex:
            bad += 1
            print("FAIL ", t.__name__, str(ex)[:600])
    return 1 if bad else 0
