"""symx path runner: contexts (symbolic / concrete), clause discharge,
per-path concrete cross-validation, DFS exploration of one query."""
from __future__ import annotations

import sys
import time as _time
import traceback

import z3

from . import core
from .core import (Engine, HarnessError, Inconclusive, PathAbort, SymBool, SymFloat, SymInt, mk_bool, mk_int)

# --------------------------------------------------------------------------
# polymorphic formula helpers (work on python values and proxies, never fork)


def _b(x):
    """bool-like -> z3 expr or python bool"""
    if isinstance(x, SymBool):
        return x.expr
    if isinstance(x, bool):
        return x
    if isinstance(x, SymInt):
        return x.expr != 0
    if isinstance(x, int):
        return x != 0
    raise HarnessError(f"formula helper got {type(x)}")


def and_(*xs):
    if len(xs) == 1 and isinstance(xs[0], (list, tuple)):
        xs = xs[0]
    es = []
    for x in xs:
        e = _b(x)
        if e is False:
            return False
        if e is True:
            continue
        es.append(e)
    if not es:
        return True
    return SymBool(z3.And(*es)) if len(es) > 1 else SymBool(es[0])


def or_(*xs):
    if len(xs) == 1 and isinstance(xs[0], (list, tuple)):
        xs = xs[0]
    es = []
    for x in xs:
        e = _b(x)
        if e is True:
            return True
        if e is False:
            continue
        es.append(e)
    if not es:
        return False
    return SymBool(z3.Or(*es)) if len(es) > 1 else SymBool(es[0])


def not_(x):
    e = _b(x)
    if isinstance(e, bool):
        return not e
    return mk_bool(z3.Not(e))


def implies(a, b):
    return or_(not_(a), b)


def iff(a, b):
    ea, eb = _b(a), _b(b)
    if isinstance(ea, bool) and isinstance(eb, bool):
        return ea == eb
    if isinstance(ea, bool):
        return mk_bool(eb) if ea else not_(b)
    if isinstance(eb, bool):
        return mk_bool(ea) if eb else not_(a)
    return mk_bool(ea == eb)


def _num(x):
    """-> ('i'|'r', z3expr) or ('c', value)"""
    if isinstance(x, SymInt):
        return "i", x.expr
    if isinstance(x, SymFloat):
        return "r", x.expr
    if isinstance(x, SymBool):
        return "i", z3.If(x.expr, 1, 0)
    if isinstance(x, bool):
        return "c", int(x)
    if isinstance(x, (int, float)):
        return "c", x
    raise HarnessError(f"numeric helper got {type(x)}")


def ite(c, a, b):
    e = _b(c)
    if e is True:
        return a
    if e is False:
        return b
    if isinstance(a, (SymBool, bool)) and isinstance(b, (SymBool, bool)):
        return mk_bool(z3.If(e, _b(a) if not isinstance(a, bool) else z3.BoolVal(a),
                             _b(b) if not isinstance(b, bool) else z3.BoolVal(b)))
    ka, ea = _num(a)
    kb, eb = _num(b)
    if "r" in (ka, kb) or isinstance(ea, float) or isinstance(eb, float):
        fa, fb = SymFloat.of(a), SymFloat.of(b)
        return SymFloat(z3.If(e, fa.expr, fb.expr), core._iv_join(fa.iv, fb.iv), max(fa.k or 0, fb.k or 0))
    if ka == "c":
        ea = z3.IntVal(ea)
    if kb == "c":
        eb = z3.IntVal(eb)
    iva = a.iv if isinstance(a, SymInt) else ((a, a) if isinstance(a, int) else (0, 1))
    ivb = b.iv if isinstance(b, SymInt) else ((b, b) if isinstance(b, int) else (0, 1))
    return mk_int(z3.If(e, ea, eb), core._iv_join(iva, ivb))


def sum_(xs):
    t = 0
    for x in xs:
        t = t + x
    return t


def count(conds):
    """number of true conditions, fork-free"""
    return sum_([ite(c, 1, 0) for c in conds])


def eq(a, b):
    """fork-free equality (also for None / enums / strings)"""
    if core.is_sym(a) or core.is_sym(b):
        if a is None or b is None:
            return False
        r = (a == b)
        if r is NotImplemented:
            return False
        return r
    return a == b


def is_float(x):
    return isinstance(x, (float, SymFloat))


def is_int(x):
    return (isinstance(x, int) and not isinstance(x, bool)) or isinstance(x, SymInt)


# --------------------------------------------------------------------------


class Violation:
    def __init__(self, clause, disc, inputs, detail=""):
        self.clause = clause
        self.disc = disc
        self.inputs = inputs
        self.detail = detail

    def as_dict(self):
        return {"clause": self.clause, "disc": self.disc, "inputs": self.inputs, "detail": self.detail}


class Ctx:
    """Interface a harness sees.  Same harness code runs symbolically and concretely."""

    def __init__(self, symbolic, eng=None, values=None):
        self.symbolic = symbolic
        self.eng = eng
        self.values = values if values is not None else {}
        self.inputs = {}          # name -> proxy (symbolic) / value (concrete)
        self.domains = {}
        self.clauses = []         # (clause id, formula, disc)
        self.notes = {}

    # inputs
    def int(self, name, lo=None, hi=None):
        if name in self.inputs:
            raise HarnessError(f"duplicate input {name}")
        self.domains[name] = (lo, hi)
        if not self.symbolic:
            if name in self.values:
                v = self.values[name]
            else:
                v = lo if lo is not None else 0
            if (lo is not None and v < lo) or (hi is not None and v > hi):
                raise PathAbort()
            self.inputs[name] = v
            return v
        x = z3.Int(name)
        iv = (lo, hi) if lo is not None and hi is not None else None
        s = SymInt(x, iv)
        self.inputs[name] = s
        if lo is not None and hi is not None and lo == hi:
            self.eng.assume(x == lo)
            return s
        if lo is not None:
            self.eng.assume(x >= lo)
        if hi is not None:
            self.eng.assume(x <= hi)
        return s

    def assume(self, f):
        if self.symbolic:
            self.eng.assume(f)
        else:
            if isinstance(f, bool):
                if not f:
                    raise PathAbort()
            else:
                raise HarnessError("symbolic formula in concrete run")

    def must(self, clause, f, disc=None):
        self.clauses.append((clause, f, disc))

    def note(self, k, v):
        self.notes[k] = v

    # re-exported helpers
    and_ = staticmethod(and_)
    or_ = staticmethod(or_)
    not_ = staticmethod(not_)
    implies = staticmethod(implies)
    iff = staticmethod(iff)
    ite = staticmethod(ite)
    sum_ = staticmethod(sum_)
    count = staticmethod(count)
    eq = staticmethod(eq)


class Query:
    """One solver-decided query: a harness function over symbolic inputs.

    fn(ctx) -> observable (nested lists / dicts of ints, strs, proxies)
    clauses: ids every feasible run is expected to reach at least once over the query
    """

    def __init__(self, qid, fn, clauses, desc="", bounds=None, max_paths=200000, shims=True, meta=None):
        self.qid = qid
        self.fn = fn
        self.clauses = list(clauses)
        self.desc = desc
        self.bounds = bounds or {}
        self.max_paths = max_paths
        self.shims = shims
        self.meta = meta or {}


class TaskResult:
    def __init__(self):
        self.stats = core.Stats().as_dict()
        self.reached = {}        # clause -> paths on which it was reached
        self.violations = []     # dicts
        self.leftovers = []
        self.inconclusive = None
        self.error = None
        self.samples = []
        self.pruned = 0
        self.raised = {}         # exception type name -> count (escaped from harness)
        self.functions = []
        self.wall = 0.0


IMPLICIT = "no_unexpected_exception"


class Runner:
    """Explores one query below a decision prefix."""

    def __init__(self, query: Query, shim_ctl, seed=0, timeout_ms=5000, max_viol_per_clause=3):
        self.q = query
        self.shim_ctl = shim_ctl      # object with .on() / .off()
        self.eng = Engine(seed=seed, timeout_ms=timeout_ms)
        self.max_viol = max_viol_per_clause
        self.viol_seen = {}

    # -- one concrete run on the real code without proxies and shims
    def run_concrete(self, values):
        self.shim_ctl.off()
        core.uninstall()
        ctx = Ctx(False, values=values)
        try:
            obs = self.q.fn(ctx)
            out = ("ok", obs)
        except PathAbort:
            out = ("pruned", None)
        except Exception as ex:  # noqa
            out = ("raised", type(ex).__name__, "".join(traceback.format_exception_only(type(ex), ex)).strip())
        return ctx, out

    def _concrete_clause_values(self, ctx):
        res = []
        for cid, f, disc in ctx.clauses:
            if not isinstance(f, bool):
                raise HarnessError(f"clause {cid} is not a bool in the concrete run")
            res.append((cid, f, disc))
        return res

    def run_symbolic(self, prefix):
        eng = self.eng
        eng.begin(prefix)
        core.install(eng)
        if self.q.shims:
            self.shim_ctl.on()
        ctx = Ctx(True, eng=eng)
        try:
            try:
                obs = self.q.fn(ctx)
                out = ("ok", obs)
            except Exception as ex:  # noqa  (real code / harness exception on this path)
                out = ("raised", type(ex).__name__,
                       "".join(traceback.format_exception_only(type(ex), ex)).strip(),
                       traceback.format_exc(limit=-6))
        finally:
            self.shim_ctl.off()
        if eng.pos < len(prefix):
            raise HarnessError(f"non-determinism: path ended after {eng.pos} of {len(prefix)} replayed entries")
        return ctx, out

    def explore(self, root_prefix, max_paths, deadline, res: TaskResult, want_profile=False):
        stack = [root_prefix]
        eng = self.eng
        n = 0
        t_start = _time.perf_counter()
        try:
            while stack:
                if n >= max_paths or _time.perf_counter() > deadline:
                    break
                prefix = stack.pop()
                n += 1
                self._one_path(prefix, res, profile=(want_profile and n == 1))
                stack.extend(eng.alternatives)
        except Inconclusive as ex:
            res.inconclusive = ex.reason
        except HarnessError as ex:
            res.error = ex.reason
        except RecursionError as ex:
            res.error = f"RecursionError {ex}"
        finally:
            core.uninstall()
            self.shim_ctl.off()
            eng.close()
        res.leftovers = stack
        st = eng.stats.as_dict()
        for k, v in st.items():
            res.stats[k] = res.stats.get(k, 0) + v
        eng.stats = core.Stats()
        res.wall += _time.perf_counter() - t_start
        return res

    def _one_path(self, prefix, res, profile=False):
        eng = self.eng
        funcs = set()
        if profile:
            root = self.shim_ctl.root

            def prof(frame, event, arg):
                if event == "call":
                    co = frame.f_code
                    if co.co_filename.startswith(root):
                        funcs.add(f"{co.co_filename[len(root):].lstrip('/')}:{co.co_qualname}")
            sys.setprofile(prof)
        try:
            try:
                ctx, out = self.run_symbolic(prefix)
            finally:
                if profile:
                    sys.setprofile(None)
        except PathAbort:
            eng.stats.pruned += 1
            res.pruned += 1
            return
        if profile:
            res.functions = sorted(funcs)
        eng.stats.paths += 1
        model = eng.ensure_model()
        values = {}
        for name, p in ctx.inputs.items():
            values[name] = eng.eval_value(model, p)
        clauses = list(ctx.clauses)
        if out[0] == "raised":
            clauses.append((IMPLICIT, False, out[1]))
            res.raised[out[1]] = res.raised.get(out[1], 0) + 1
        for cid, _, _ in clauses:
            res.reached[cid] = res.reached.get(cid, 0) + 1

        # ---- discharge clauses: one combined query per path
        failing = []  # (cid, disc, model)
        pend = []
        for cid, f, disc in clauses:
            if isinstance(f, SymBool):
                if z3.is_true(model.eval(f.expr, model_completion=True)):
                    pend.append((cid, f, disc))
                else:
                    failing.append((cid, disc, model))
            elif isinstance(f, bool):
                if not f:
                    failing.append((cid, disc, model))
            else:
                raise HarnessError(f"clause {cid}: formula of type {type(f)}")
        while pend:
            eng.stats.must_queries += 1
            eng.solver.push()
            eng.solver.add(z3.Not(z3.And(*[f.expr for _, f, _ in pend])))
            r = eng._check()
            if r == z3.sat:
                m2 = eng._model()
            eng.solver.pop()
            if r == z3.unknown:
                raise Inconclusive("solver unknown (clause): " + ",".join(c for c, _, _ in pend))
            if r == z3.unsat:
                break
            still = []
            for cid, f, disc in pend:
                if z3.is_true(m2.eval(f.expr, model_completion=True)):
                    still.append((cid, f, disc))
                else:
                    failing.append((cid, disc, m2))
            if len(still) == len(pend):
                raise HarnessError("clause model does not falsify any clause")
            pend = still

        # ---- per-path concrete cross-validation against the real code
        cctx, cout = self.run_concrete(values)
        eng.stats.xval += 1
        sym_obs = None
        if out[0] == "ok":
            sym_obs = ("ok", eng.eval_value(model, out[1]))
        else:
            sym_obs = ("raised", out[1])
        if cout[0] == "ok":
            con_obs = ("ok", eng.eval_value(None, cout[1]))
        elif cout[0] == "raised":
            con_obs = ("raised", cout[1])
        else:
            con_obs = ("pruned",)
        if _canon(sym_obs) != _canon(con_obs):
            detail = ""
            if out[0] == "raised":
                detail = out[3]
            raise HarnessError("cross-validation mismatch on query %s inputs %r:\n symbolic=%r\n concrete=%r\n%s"
                               % (self.q.qid, values, sym_obs, con_obs, detail))
        if cout[0] == "ok":
            cc = self._concrete_clause_values(cctx)
            if [c for c, _, _ in cc] != [c for c, _, _ in ctx.clauses]:
                raise HarnessError("cross-validation: clause lists differ (%s) inputs %r" % (self.q.qid, values))
            for (cid, f, _), (_, cf, _) in zip(ctx.clauses, cc):
                sv = f if isinstance(f, bool) else z3.is_true(model.eval(f.expr, model_completion=True))
                if sv != cf:
                    raise HarnessError("cross-validation: clause %s symbolic=%s concrete=%s (%s) inputs %r"
                                       % (cid, sv, cf, self.q.qid, values))
        smp = {"query": self.q.qid, "inputs": values, "decisions": len(eng.decisions),
               "outcome": out[0] if out[0] == "ok" else out[1], "notes": ctx.notes}
        if len(res.samples) < 1:
            res.samples.append(smp)
        else:
            res.samples[1:2] = [smp]     # first and most recent path of the task

        # ---- confirm violations by concrete replay
        for cid, disc, m in failing:
            key = (cid, disc)
            if self.viol_seen.get(key, 0) >= self.max_viol:
                continue
            vals = {name: eng.eval_value(m, p) for name, p in ctx.inputs.items()}
            c2, o2 = self.run_concrete(vals)
            ok = False
            detail = ""
            if cid == IMPLICIT:
                ok = o2[0] == "raised" and o2[1] == disc
                detail = o2[2] if ok else ""
            elif o2[0] in ("ok", "raised"):
                # (clauses recorded before an exception escaped the harness still count)
                for ccid, cf, cdisc in self._concrete_clause_values(c2):
                    if ccid == cid and cdisc == disc and cf is False:
                        ok = True
            if not ok:
                raise HarnessError("violation of %s does not replay concretely (%s) inputs %r outcome %r"
                                   % (cid, self.q.qid, vals, o2[:2]))
            self.viol_seen[key] = self.viol_seen.get(key, 0) + 1
            res.violations.append({"query": self.q.qid, "clause": cid, "disc": disc, "inputs": vals,
                                   "detail": detail, "notes": c2.notes})


def _canon(x):
    if isinstance(x, tuple):
        return [_canon(y) for y in x]
    if isinstance(x, list):
        return [_canon(y) for y in x]
    if isinstance(x, dict):
        return {str(k): _canon(v) for k, v in sorted(x.items(), key=lambda kv: str(kv[0]))}
    return x
