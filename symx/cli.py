"""Command line of the verification machinery (called through ./vf)."""
from __future__ import annotations

import argparse
import os
import sys

VERIF = os.path.dirname(os.path.dirname(os.path.abspath(__file__)))
if VERIF not in sys.path:
    sys.path.insert(0, VERIF)


def main():
    ap = argparse.ArgumentParser()
    sub = ap.add_subparsers(dest="cmd", required=True)
    c = sub.add_parser("check")
    c.add_argument("pid")
    c.add_argument("--tier", default=os.environ.get("VERIF_TIER", "quick"), choices=["quick", "thorough"])
    c.add_argument("--wall-cap", type=float, default=None)
    c.add_argument("--no-evidence", action="store_true")
    r = sub.add_parser("replay")
    r.add_argument("path")
    s = sub.add_parser("selftest")
    s.add_argument("args", nargs="*")
    if len(sys.argv) > 1 and sys.argv[1] == "selftest":
        from symx import selftest
        sys.exit(selftest.main(sys.argv[2:]))
    if len(sys.argv) > 1 and sys.argv[1] == "enginetest":
        from symx import enginetest
        sys.exit(enginetest.main(sys.argv[2:]))
    a = ap.parse_args()
    seed = int(os.environ.get("VERIF_SEED", "0") or 0)
    if a.cmd == "check":
        from symx import driver
        sys.exit(driver.run_check(a.pid.upper(), a.tier, seed, wall_cap=a.wall_cap,
                                  out_evidence=not a.no_evidence))
    if a.cmd == "replay":
        from symx import driver
        sys.exit(driver.replay(a.path))
    if a.cmd == "selftest":
        from symx import selftest
        sys.exit(selftest.main(a.args))


if __name__ == "__main__":
    try:
        main()
    except SystemExit:
        raise
    except BaseException:  # noqa: an internal crash must never look like a VIOLATION (exit 1)
        import traceback
        traceback.print_exc()
        print("HARNESS-ERROR internal exception in the verification machinery")
        sys.exit(3)
