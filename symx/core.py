"""symx core: proxy-based symbolic execution of real Python code on z3.

The real S-Coda functions are run in CPython with SymInt / SymBool / SymFloat
proxies in message fields and arguments.  Every branch on a symbolic condition
is a solver-decided decision; paths are explored by deterministic DFS with
re-execution.  See DESIGN.md section 2.
"""
from __future__ import annotations

import math
import numbers
import os
import time as _time
import zlib
from fractions import Fraction

import z3

# --------------------------------------------------------------------------
# control-flow exceptions (BaseException: real code's `except Exception` must
# not swallow them)


class PathAbort(BaseException):
    """Current path is infeasible / excluded by an assumption."""


class Inconclusive(BaseException):
    """The query cannot be decided (solver unknown, float-inexact, budget)."""

    def __init__(self, reason):
        super().__init__(reason)
        self.reason = reason


class HarnessError(BaseException):
    """The engine or harness is wrong (non-determinism, unsupported op)."""

    def __init__(self, reason):
        super().__init__(reason)
        self.reason = reason


_E = None  # current engine (one per process)


def engine():
    if _E is None:
        raise HarnessError("symbolic value used outside an engine run")
    return _E


def _tag(expr) -> int:
    return zlib.crc32(expr.sexpr().encode())


# --------------------------------------------------------------------------
# interval helpers (for float exactness certificates)


def _iv_add(a, b):
    if a is None or b is None:
        return None
    return (a[0] + b[0], a[1] + b[1])


def _iv_neg(a):
    if a is None:
        return None
    return (-a[1], -a[0])


def _iv_mul(a, b):
    if a is None or b is None:
        return None
    c = [a[0] * b[0], a[0] * b[1], a[1] * b[0], a[1] * b[1]]
    return (min(c), max(c))


def _iv_abs(a):
    if a is None:
        return None
    if a[0] >= 0:
        return a
    if a[1] <= 0:
        return (-a[1], -a[0])
    return (0, max(-a[0], a[1]))


def _iv_join(a, b):
    if a is None or b is None:
        return None
    return (min(a[0], b[0]), max(a[1], b[1]))


def _iv_const(c):
    return (c, c)


def _is_pow2(n: int) -> bool:
    return n > 0 and (n & (n - 1)) == 0


# --------------------------------------------------------------------------
# proxies


class SymBool:
    __slots__ = ("expr",)

    def __init__(self, expr):
        self.expr = expr

    def __bool__(self):
        return engine().branch(self.expr)

    def _co(self, o):
        if isinstance(o, SymBool):
            return o.expr
        if isinstance(o, bool):
            return z3.BoolVal(o)
        return None

    def __and__(self, o):
        if isinstance(o, bool):
            return self if o else False
        e = self._co(o)
        if e is None:
            return NotImplemented
        return mk_bool(z3.And(self.expr, e))

    __rand__ = __and__

    def __or__(self, o):
        if isinstance(o, bool):
            return True if o else self
        e = self._co(o)
        if e is None:
            return NotImplemented
        return mk_bool(z3.Or(self.expr, e))

    __ror__ = __or__

    def __xor__(self, o):
        if isinstance(o, bool):
            return ~self if o else self
        e = self._co(o)
        if e is None:
            return NotImplemented
        return mk_bool(z3.Xor(self.expr, e))

    __rxor__ = __xor__

    def __invert__(self):
        return mk_bool(z3.Not(self.expr))

    def __eq__(self, o):
        if isinstance(o, bool):
            return self if o else ~self
        e = self._co(o)
        if e is None:
            return NotImplemented
        return mk_bool(self.expr == e)

    def __ne__(self, o):
        if isinstance(o, bool):
            return ~self if o else self
        e = self._co(o)
        if e is None:
            return NotImplemented
        return mk_bool(self.expr != e)

    def __hash__(self):
        return hash(bool(self))

    def __add__(self, o):
        return SymInt(z3.If(self.expr, 1, 0), (0, 1)) + o

    __radd__ = __add__

    def __repr__(self):
        return f"<SymBool {self.expr}>"

    def __format__(self, spec):
        return format(bool(self), spec)


def mk_bool(expr):
    return SymBool(expr)


def _frac_of_float(f: float) -> Fraction:
    n, d = f.as_integer_ratio()
    return Fraction(n, d)


def _real_val(fr: Fraction):
    return z3.RealVal(f"{fr.numerator}/{fr.denominator}")


class SymInt:
    """A z3 Int term behaving like a Python int (mathematical integers)."""

    __slots__ = ("expr", "iv")

    def __init__(self, expr, iv=None):
        self.expr = expr
        self.iv = iv

    # ---- coercion
    @staticmethod
    def _co(o):
        """-> (expr, iv) for int-like operands, else None."""
        if isinstance(o, SymInt):
            return o.expr, o.iv
        if isinstance(o, bool):
            return _intval(int(o)), (int(o), int(o))
        if isinstance(o, int):
            return _intval(o), (o, o)
        if isinstance(o, SymBool):
            return z3.If(o.expr, 1, 0), (0, 1)
        return None

    # ---- arithmetic
    def __add__(self, o):
        c = self._co(o)
        if c is None:
            if isinstance(o, (float, SymFloat)):
                return SymFloat.of(self) + o
            return NotImplemented
        return mk_int(self.expr + c[0], _iv_add(self.iv, c[1]))

    __radd__ = __add__

    def __sub__(self, o):
        c = self._co(o)
        if c is None:
            if isinstance(o, (float, SymFloat)):
                return SymFloat.of(self) - o
            return NotImplemented
        return mk_int(self.expr - c[0], _iv_add(self.iv, _iv_neg(c[1])))

    def __rsub__(self, o):
        c = self._co(o)
        if c is None:
            if isinstance(o, (float, SymFloat)):
                return SymFloat.of(o) - SymFloat.of(self)
            return NotImplemented
        return mk_int(c[0] - self.expr, _iv_add(c[1], _iv_neg(self.iv)))

    def __mul__(self, o):
        c = self._co(o)
        if c is None:
            if isinstance(o, (float, SymFloat)):
                return SymFloat.of(self) * o
            return NotImplemented
        return mk_int(self.expr * c[0], _iv_mul(self.iv, c[1]))

    __rmul__ = __mul__

    def __neg__(self):
        return mk_int(-self.expr, _iv_neg(self.iv))

    def __pos__(self):
        return self

    def __abs__(self):
        return mk_int(z3.If(self.expr >= 0, self.expr, -self.expr), _iv_abs(self.iv))

    def __floordiv__(self, o):
        if isinstance(o, float) and o > 0 and o.is_integer():
            # python: int // float -> float (integer valued)
            return SymFloat.of(self // int(o))
        if isinstance(o, bool) or not isinstance(o, int) or o <= 0:
            raise HarnessError(f"unsupported floor division of SymInt by {o!r}")
        iv = None if self.iv is None else (self.iv[0] // o, self.iv[1] // o)
        return mk_int(self.expr / o, iv)

    def __mod__(self, o):
        if isinstance(o, bool) or not isinstance(o, int) or o <= 0:
            if isinstance(o, float) and o > 0 and o.is_integer():
                # python: int % float -> float; integer valued
                r = mk_int(self.expr % int(o), (0, int(o) - 1))
                return SymFloat.of(r)
            raise HarnessError(f"unsupported modulo of SymInt by {o!r}")
        return mk_int(self.expr % o, (0, o - 1))

    def __rfloordiv__(self, o):
        raise HarnessError("unsupported: division by a symbolic integer")

    __rmod__ = __rfloordiv__

    def __divmod__(self, o):
        return (self // o, self % o)

    def __truediv__(self, o):
        return SymFloat.of(self) / o

    def __rtruediv__(self, o):
        raise HarnessError("unsupported: true division by a symbolic integer")

    def __pow__(self, o):
        if isinstance(o, int) and 0 <= o <= 4:
            r = 1
            for _ in range(o):
                r = r * self
            return r
        raise HarnessError("unsupported: power of symbolic integer")

    # ---- comparisons
    def _cmp(self, o, op):
        c = self._co(o)
        if c is not None:
            return mk_bool(op(self.expr, c[0]))
        if isinstance(o, float):
            if math.isnan(o):
                return False if op is not _OP_NE else True
            if math.isinf(o):
                return op(0.0, o)
            return SymFloat.of(self)._cmp(o, op)
        if isinstance(o, SymFloat):
            return SymFloat.of(self)._cmp(o, op)
        return NotImplemented

    def __lt__(self, o):
        return self._cmp(o, _OP_LT)

    def __le__(self, o):
        return self._cmp(o, _OP_LE)

    def __gt__(self, o):
        return self._cmp(o, _OP_GT)

    def __ge__(self, o):
        return self._cmp(o, _OP_GE)

    def __eq__(self, o):
        return self._cmp(o, _OP_EQ)

    def __ne__(self, o):
        return self._cmp(o, _OP_NE)

    # ---- conversions that need a concrete value
    def __bool__(self):
        return engine().branch(self.expr != 0)

    def __hash__(self):
        return hash(engine().concretise(self.expr, "hash"))

    def __index__(self):
        return engine().concretise(self.expr, "index")

    def __int__(self):
        return engine().concretise(self.expr, "int")

    def __float__(self):
        return float(engine().concretise(self.expr, "float"))

    def __format__(self, spec):
        return format(engine().concretise(self.expr, "format"), spec)

    def __str__(self):
        return str(engine().concretise(self.expr, "str"))

    def __round__(self, n=None):
        return self

    def __trunc__(self):
        return self

    def __floor__(self):
        return self

    def __ceil__(self):
        return self

    def is_integer(self):
        return True

    @property
    def real(self):
        return self

    @property
    def numerator(self):
        return self

    @property
    def denominator(self):
        return 1

    def __copy__(self):
        return self

    def __deepcopy__(self, memo):
        return self

    def __repr__(self):
        return f"<SymInt {self.expr}>"


numbers.Integral.register(SymInt)


def _OP_LT(a, b):
    return a < b


def _OP_LE(a, b):
    return a <= b


def _OP_GT(a, b):
    return a > b


def _OP_GE(a, b):
    return a >= b


def _OP_EQ(a, b):
    return a == b


def _OP_NE(a, b):
    return a != b


def mk_int(expr, iv=None):
    return SymInt(expr, iv)


_IVC = {}


def _intval(o):
    v = _IVC.get(o)
    if v is None:
        v = z3.IntVal(o)
        if -4096 <= o <= 4096:
            _IVC[o] = v
    return v


class SymFloat:
    """A Python float whose exact value is the z3 Real term `expr`.

    kind == 'exact'   : the IEEE double equals the real term on every model
                        (certified: dyadic value, |v| * 2**k < 2**53).
    kind == 'quotient': the double is fl(n / c) for an exact integer-valued
                        term n and concrete integer c; `expr` is the real n/c.
                        Only comparisons against concrete t with t*c integral
                        are certified.
    """

    __slots__ = ("expr", "iv", "k", "kind", "qden", "ie")

    def __init__(self, expr, iv, k, kind="exact", qden=None, ie=None):
        self.ie = ie          # z3 Int term equal to the value when it is known to be integral (keeps queries in LIA)
        self.expr = expr
        self.iv = iv          # (lo, hi) as Fractions/ints or None
        self.k = k            # value * 2**k is an integer
        self.kind = kind
        self.qden = qden

    @staticmethod
    def of(o):
        if isinstance(o, SymFloat):
            return o
        if isinstance(o, SymInt):
            r = SymFloat(z3.ToReal(o.expr), o.iv, 0, ie=o.expr)
            r._certify("int->float")
            return r
        if isinstance(o, bool):
            o = int(o)
        if isinstance(o, int):
            r = SymFloat(z3.RealVal(o), (o, o), 0, ie=z3.IntVal(o))
            r._certify("int->float")
            return r
        if isinstance(o, float):
            if math.isnan(o) or math.isinf(o):
                raise Inconclusive("float-inexact: nan/inf in symbolic float arithmetic")
            fr = _frac_of_float(o)
            k = fr.denominator.bit_length() - 1
            return SymFloat(_real_val(fr), (fr, fr), k, ie=z3.IntVal(fr.numerator) if fr.denominator == 1 else None)
        if isinstance(o, SymBool):
            return SymFloat.of(SymInt(z3.If(o.expr, 1, 0), (0, 1)))
        raise HarnessError(f"cannot make SymFloat of {type(o)}")

    def _certify(self, what):
        if self.kind != "exact":
            return
        if self.iv is None or self.k is None:
            raise Inconclusive(f"float-inexact: unbounded operand in {what}")
        m = max(abs(self.iv[0]), abs(self.iv[1]))
        if m * (1 << self.k) >= (1 << 53) or self.k > 1000:
            raise Inconclusive(f"float-inexact: {what} exceeds 53 bits (|v|<={m}, k={self.k})")

    def _need_exact(self, what):
        if self.kind != "exact":
            raise Inconclusive(f"float-inexact: {what} on a rounded quotient")

    # ---- arithmetic
    def __add__(self, o):
        if not isinstance(o, (SymFloat, SymInt, int, float, SymBool)):
            return NotImplemented
        o = SymFloat.of(o)
        self._need_exact("add")
        o._need_exact("add")
        ie = self.ie + o.ie if self.ie is not None and o.ie is not None else None
        r = SymFloat(self.expr + o.expr if ie is None else z3.ToReal(ie), _iv_add(self.iv, o.iv), max(self.k, o.k), ie=ie)
        r._certify("float add")
        return r

    __radd__ = __add__

    def __neg__(self):
        self._need_exact("neg")
        return SymFloat(-self.expr, _iv_neg(self.iv), self.k, ie=-self.ie if self.ie is not None else None)

    def __pos__(self):
        return self

    def __abs__(self):
        self._need_exact("abs")
        return SymFloat(z3.If(self.expr >= 0, self.expr, -self.expr), _iv_abs(self.iv), self.k)

    def __sub__(self, o):
        if not isinstance(o, (SymFloat, SymInt, int, float, SymBool)):
            return NotImplemented
        return self + (-SymFloat.of(o))

    def __rsub__(self, o):
        if not isinstance(o, (SymFloat, SymInt, int, float, SymBool)):
            return NotImplemented
        return SymFloat.of(o) + (-self)

    def __mul__(self, o):
        if not isinstance(o, (SymFloat, SymInt, int, float, SymBool)):
            return NotImplemented
        o = SymFloat.of(o)
        self._need_exact("mul")
        o._need_exact("mul")
        ie = self.ie * o.ie if self.ie is not None and o.ie is not None else None
        r = SymFloat(self.expr * o.expr if ie is None else z3.ToReal(ie), _iv_mul(self.iv, o.iv), self.k + o.k, ie=ie)
        r._certify("float mul")
        return r

    __rmul__ = __mul__

    def __truediv__(self, o):
        self._need_exact("div")
        if isinstance(o, bool):
            o = int(o)
        if isinstance(o, float) and o.is_integer():
            o = int(o)
        if isinstance(o, int) and o != 0:
            if _is_pow2(abs(o)):
                sh = abs(o).bit_length() - 1
                fr = Fraction(1, o)
                r = SymFloat(self.expr * _real_val(fr), _iv_mul(self.iv, (fr, fr)), self.k + sh)
                r._certify("float div by power of two")
                return r
            if self.k != 0:
                raise Inconclusive("float-inexact: division of non-integer by non-power-of-two")
            fr = Fraction(1, o)
            return SymFloat(self.expr * _real_val(fr), _iv_mul(self.iv, (fr, fr)), None,
                            kind="quotient", qden=abs(o))
        raise Inconclusive(f"float-inexact: division by {o!r}")

    def __rtruediv__(self, o):
        raise Inconclusive("float-inexact: division by symbolic float")

    def __floordiv__(self, o):
        raise Inconclusive("float-inexact: floor division of symbolic float")

    __rfloordiv__ = __mod__ = __rmod__ = __floordiv__

    # ---- comparisons
    def _cmp(self, o, op):
        if isinstance(o, float) and (math.isinf(o) or math.isnan(o)):
            if math.isnan(o):
                return op is _OP_NE
            return op(0.0, o)
        if not isinstance(o, (SymFloat, SymInt, int, float, SymBool)):
            return NotImplemented
        o = SymFloat.of(o)
        if self.kind == "quotient" or o.kind == "quotient":
            q, t = (self, o) if self.kind == "quotient" else (o, self)
            ok = False
            if t.kind == "exact" and z3.is_rational_value(z3.simplify(t.expr)):
                tv = z3.simplify(t.expr)
                fr = Fraction(tv.numerator_as_long(), tv.denominator_as_long())
                if (fr * q.qden).denominator == 1 and q.iv is not None \
                        and max(abs(q.iv[0]), abs(q.iv[1])) < (1 << 40):
                    ok = True
            if not ok:
                raise Inconclusive("float-inexact: comparison of rounded quotient not certified")
        if self.ie is not None and o.ie is not None:
            return mk_bool(op(self.ie, o.ie))
        return mk_bool(op(self.expr, o.expr))

    def __lt__(self, o):
        return self._cmp(o, _OP_LT)

    def __le__(self, o):
        return self._cmp(o, _OP_LE)

    def __gt__(self, o):
        return self._cmp(o, _OP_GT)

    def __ge__(self, o):
        return self._cmp(o, _OP_GE)

    def __eq__(self, o):
        return self._cmp(o, _OP_EQ)

    def __ne__(self, o):
        return self._cmp(o, _OP_NE)

    # ---- conversions
    def trunc(self):
        self._need_exact("int()")
        if self.ie is not None:
            return mk_int(self.ie, self.iv)
        e = self.expr
        iv = None
        if self.iv is not None:
            iv = (math.floor(self.iv[0]) if self.iv[0] >= 0 else -math.floor(-self.iv[0]),
                  math.floor(self.iv[1]) if self.iv[1] >= 0 else -math.floor(-self.iv[1]))
        return mk_int(z3.If(e >= 0, z3.ToInt(e), -z3.ToInt(-e)), iv)

    def __round__(self, n=None):
        if n is not None:
            raise Inconclusive("float-inexact: round with digits")
        self._need_exact("round()")
        if self.ie is not None:
            return mk_int(self.ie, self.iv)
        e = self.expr
        half = z3.RealVal("1/2")
        r = z3.ToInt(e + half)
        tie = z3.ToReal(r) == e + half
        res = z3.If(z3.And(tie, r % 2 == 1), r - 1, r)
        iv = None
        if self.iv is not None:
            iv = (math.floor(self.iv[0]), math.ceil(self.iv[1]))
        return mk_int(res, iv)

    def is_integer(self):
        self._need_exact("is_integer")
        if self.ie is not None:
            return True
        return mk_bool(z3.ToReal(z3.ToInt(self.expr)) == self.expr)

    def _concrete(self, why):
        self._need_exact(why)
        fr = engine().concretise_real(self.expr, why)
        return fr.numerator / fr.denominator

    def __float__(self):
        return self._concrete("float")

    def __bool__(self):
        return engine().branch(self.expr != 0)

    def __hash__(self):
        return hash(self._concrete("hash"))

    def __format__(self, spec):
        return format(self._concrete("format"), spec)

    def __copy__(self):
        return self

    def __deepcopy__(self, memo):
        return self

    def __repr__(self):
        return f"<SymFloat[{self.kind}] {self.expr}>"


numbers.Real.register(SymFloat)


def mk_float(sf: SymFloat):
    e = z3.simplify(sf.expr)
    if sf.kind == "exact" and z3.is_rational_value(e):
        return e.numerator_as_long() / e.denominator_as_long()
    return sf


def is_sym(x):
    return isinstance(x, (SymInt, SymBool, SymFloat))


# --------------------------------------------------------------------------
# shim builtins


def sym_int(x=0, *a):
    if isinstance(x, SymInt):
        return x
    if isinstance(x, SymFloat):
        return x.trunc()
    if isinstance(x, SymBool):
        return SymInt(z3.If(x.expr, 1, 0), (0, 1))
    return int(x, *a)


def sym_float(x=0.0):
    if isinstance(x, (SymInt, SymBool)):
        return SymFloat.of(x)
    if isinstance(x, SymFloat):
        return x
    return float(x)


# --------------------------------------------------------------------------
# trail entries: (kind, taken, tag, value)
#   kind 'D' decision with both sides feasible at discovery time
#        'F' forced decision (other side unsat) - nothing asserted
#        'A' assumption
#   value: concretised value for decisions raised by concretise(), else None


class Stats:
    FIELDS = ("paths", "decisions", "forced", "solver_checks", "solver_s", "unknown", "concretisations",
              "pruned", "must_queries", "xval", "replayed_entries", "frames_reused", "fallback_checks")

    def __init__(self):
        for f in self.FIELDS:
            setattr(self, f, 0)

    def as_dict(self):
        return {f: getattr(self, f) for f in self.FIELDS}

    def add(self, d):
        for f in self.FIELDS:
            setattr(self, f, getattr(self, f) + d.get(f, 0))


class Engine:
    def __init__(self, seed=0, timeout_ms=5000, verify_tags=True, fallback_timeout_ms=300000):
        self.fallback_timeout_ms = fallback_timeout_ms
        self._fallback_model = None
        self.solver = z3.Solver()
        self.solver.set("timeout", timeout_ms)
        self.solver.set("random_seed", seed & 0x7FFFFFFF)
        self.frames = []          # entries currently pushed on the solver (1 frame each)
        self.stats = Stats()
        self.verify_tags = verify_tags
        self.reset_path([])

    # ---- per path state
    def reset_path(self, prefix):
        self.prefix = prefix
        self.pos = 0
        self.decisions = []       # full trail of this path
        self.alternatives = []
        self.known = {}           # z3 ast id -> bool (atoms decided on this path)
        self.cvals = {}           # z3 ast id -> concrete value decided on this path
        self.model = None
        self.keep = []            # keep z3 asts alive so ids are not recycled
        self.concretised = []     # (why, value) log

    def begin(self, prefix):
        """Align solver frames with `prefix` (pop what differs)."""
        self.reset_path(prefix)
        n = 0
        lim = min(len(self.frames), len(prefix))
        while n < lim and self.frames[n] == prefix[n]:
            n += 1
        for _ in range(len(self.frames) - n):
            self.solver.pop()
        del self.frames[n:]
        self.stats.frames_reused += n

    def end(self):
        pass

    def close(self):
        for _ in range(len(self.frames)):
            self.solver.pop()
        self.frames = []

    # ---- solver helpers
    def _check(self, *extra):
        t0 = _time.perf_counter()
        r = self.solver.check(*extra)
        self.stats.solver_checks += 1
        self._fallback_model = None
        if r == z3.unknown:
            # the incremental core gave up (timeout): retry once on a fresh, non-incremental solver
            self.stats.fallback_checks += 1
            s2 = z3.Solver()
            s2.set("timeout", self.fallback_timeout_ms)
            s2.add(self.solver.assertions())
            r = s2.check(*extra)
            if r == z3.sat:
                self._fallback_model = s2.model()
        self.stats.solver_s += _time.perf_counter() - t0
        if r == z3.unknown:
            self.stats.unknown += 1
            d = os.environ.get("VERIF_DUMP_UNKNOWN")
            if d:
                with open(os.path.join(d, f"unknown_{os.getpid()}_{self.stats.solver_checks}.smt2"), "w") as f:
                    f.write(self.solver.to_smt2())
        return r

    def _model(self):
        return self._fallback_model if self._fallback_model is not None else self.solver.model()

    def ensure_model(self):
        if self.model is None:
            r = self._check()
            if r == z3.unsat:
                raise PathAbort()
            if r == z3.unknown:
                raise Inconclusive("solver unknown (path feasibility): " + self.solver.reason_unknown())
            self.model = self._model()
        return self.model

    def _push_entry(self, entry, expr):
        """Record an entry; assert expr (may be None) in a new frame unless already aligned."""
        idx = len(self.decisions)
        self.decisions.append(entry)
        if idx < len(self.frames):
            # frame kept from the previous path
            if self.frames[idx] != entry:
                raise HarnessError(f"non-determinism: trail entry {idx} differs on replay: "
                                   f"{self.frames[idx]} vs {entry}")
            return
        if idx != len(self.frames):
            raise HarnessError("frame misalignment")
        self.solver.push()
        if expr is not None:
            self.solver.add(expr)
            self.model = None
        self.frames.append(entry)

    def _learn(self, cond, taken):
        self.keep.append(cond)
        self.known[cond.get_id()] = taken

    # ---- branching
    def branch(self, cond, value=None, force_entry=False) -> bool:
        """Decide a symbolic condition (raw z3 Bool term).  Conditions are keyed by the hash-consed
        identity of the *unsimplified* term, which is deterministic for a deterministic program."""
        cid = cond.get_id()
        if not force_entry:
            k = self.known.get(cid)
            if k is not None:
                return k
            if z3.is_true(cond):
                return True
            if z3.is_false(cond):
                return False
        if self.pos < len(self.prefix):
            entry = self.prefix[self.pos]
            kind, taken, tag, val = entry
            if kind not in ("D", "F"):
                raise HarnessError(f"non-determinism: expected {kind} entry at {self.pos}, got decision")
            if self.verify_tags and tag != cond.hash():
                raise HarnessError(f"non-determinism: decision {self.pos} condition differs on replay")
            self.pos += 1
            self.stats.replayed_entries += 1
            if kind == "D":
                self._push_entry(entry, cond if taken else z3.Not(cond))
            else:
                self._push_entry(entry, None)
            self._learn(cond, taken)
            return taken
        # new decision
        m = self.ensure_model()
        taken = z3.is_true(m.eval(cond, model_completion=True))
        other = z3.Not(cond) if taken else cond
        self.solver.push()
        self.solver.add(other)
        r = self._check()
        self.solver.pop()
        tag = cond.hash()
        if r == z3.unknown:
            raise Inconclusive("solver unknown (branch feasibility): " + self.solver.reason_unknown())
        if r == z3.sat:
            self.stats.decisions += 1
            self.alternatives.append(self.decisions + [("D", not taken, tag, value)])
            entry = ("D", taken, tag, value)
            keep_model = self.model
            self._push_entry(entry, cond if taken else z3.Not(cond))
            self.model = keep_model     # still a model: it satisfies the taken side
        else:
            self.stats.forced += 1
            self._push_entry(("F", taken, tag, value), None)
        self.pos += 1
        self._learn(cond, taken)
        return taken

    def assume(self, cond):
        if isinstance(cond, bool):
            if not cond:
                raise PathAbort()
            return
        if isinstance(cond, SymBool):
            cond = cond.expr
        if z3.is_true(cond):
            return
        if z3.is_false(cond):
            raise PathAbort()
        k = self.known.get(cond.get_id())
        if k is True:
            return
        if k is False:
            raise PathAbort()
        tag = cond.hash()
        entry = ("A", True, tag, None)
        if self.pos < len(self.prefix):
            if self.prefix[self.pos][0] != "A" or (self.verify_tags and self.prefix[self.pos][2] != tag):
                raise HarnessError(f"non-determinism: assumption at {self.pos} differs on replay")
            self.pos += 1
            self._push_entry(entry, cond)
            self._learn(cond, True)
            return
        keep = self.model
        self._push_entry(entry, cond)
        self.pos += 1
        self._learn(cond, True)
        if keep is not None and z3.is_true(keep.eval(cond, model_completion=True)):
            self.model = keep
        else:
            self.model = None
            self.ensure_model()

    def concretise(self, expr, why="") -> int:
        if z3.is_int_value(expr):
            return expr.as_long()
        eid = expr.get_id()
        if eid in self.cvals:
            return self.cvals[eid]
        self.stats.concretisations += 1
        self.keep.append(expr)
        while True:
            if self.pos < len(self.prefix):
                v = self.prefix[self.pos][3]
                if v is None:
                    raise HarnessError(f"non-determinism: expected concretisation entry at {self.pos}")
            else:
                v = self.ensure_model().eval(expr, model_completion=True).as_long()
            if self.branch(expr == v, value=v, force_entry=True):
                self.cvals[eid] = v
                self.concretised.append((why, v))
                return v

    def concretise_real(self, expr, why="") -> Fraction:
        if z3.is_rational_value(expr):
            return Fraction(expr.numerator_as_long(), expr.denominator_as_long())
        eid = expr.get_id()
        if eid in self.cvals:
            return self.cvals[eid]
        self.stats.concretisations += 1
        self.keep.append(expr)
        while True:
            if self.pos < len(self.prefix):
                v = self.prefix[self.pos][3]
                if v is None:
                    raise HarnessError(f"non-determinism: expected concretisation entry at {self.pos}")
                fr = Fraction(v[0], v[1])
            else:
                mv = self.ensure_model().eval(expr, model_completion=True)
                fr = Fraction(mv.numerator_as_long(), mv.denominator_as_long())
            if self.branch(expr == _real_val(fr), value=(fr.numerator, fr.denominator), force_entry=True):
                self.cvals[eid] = fr
                self.concretised.append((why, fr))
                return fr

    # ---- model evaluation of observables
    def eval_value(self, model, x):
        if isinstance(x, SymInt):
            return model.eval(x.expr, model_completion=True).as_long()
        if isinstance(x, SymBool):
            return z3.is_true(model.eval(x.expr, model_completion=True))
        if isinstance(x, SymFloat):
            v = model.eval(x.expr, model_completion=True)
            fr = Fraction(v.numerator_as_long(), v.denominator_as_long())
            return ("float", fr.numerator, fr.denominator)
        if isinstance(x, float):
            if math.isnan(x) or math.isinf(x):
                return ("float", repr(x), 0)
            fr = _frac_of_float(x)
            return ("float", fr.numerator, fr.denominator)
        if isinstance(x, (list, tuple)):
            return [self.eval_value(model, y) for y in x]
        if isinstance(x, dict):
            return {k: self.eval_value(model, v) for k, v in x.items()}
        if isinstance(x, bool) or x is None or isinstance(x, (int, str)):
            return x
        return repr(x)


def install(e):
    global _E
    _E = e


def uninstall():
    global _E
    _E = None
