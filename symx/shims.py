"""Import isolation for the repository under test and the (small, listed)
set of shims that let real S-Coda code run on proxies.  DESIGN.md 2.2."""
from __future__ import annotations

import ast
import importlib
import logging
import os
import sys

import z3

from . import core
from .core import SymBool, SymFloat, SymInt, mk_int

SCODA_MODULES = [
    "scoda.enumerations.message_type", "scoda.enumerations.tokenisation_prefixes",
    "scoda.misc.music_theory", "scoda.settings.settings", "scoda.elements.message",
    "scoda.misc.util", "scoda.midi.midi_message", "scoda.midi.midi_track", "scoda.midi.midi_file",
    "scoda.sequences.abstract_sequence", "scoda.sequences.absolute_sequence",
    "scoda.sequences.relative_sequence", "scoda.sequences.sequence", "scoda.elements.bar",
    "scoda.elements.track", "scoda.elements.composition", "scoda.tokenisation.notelike_tokenisation",
]

# modules whose global `int` / `float` are shadowed while a symbolic path runs
INT_SHADOW = ["scoda.sequences.relative_sequence", "scoda.sequences.absolute_sequence",
              "scoda.sequences.sequence", "scoda.tokenisation.notelike_tokenisation",
              "scoda.midi.midi_track", "scoda.midi.midi_file", "scoda.misc.util", "scoda.elements.bar"]
FLOAT_SHADOW = ["scoda.tokenisation.notelike_tokenisation"]


def repo_root():
    return os.path.realpath(os.environ.get("VERIF_REPO", "/repo"))


def isolate_imports(root=None):
    """Make `import scoda` resolve to <root>/scoda only (scoda is a namespace
    package; the editable-install finder would silently merge /repo in)."""
    root = root or repo_root()
    sys.meta_path[:] = [f for f in sys.meta_path
                        if "__editable__" not in getattr(f, "__module__", "") + type(f).__module__]
    sys.path[:] = [p for p in sys.path if "__editable__" not in p]
    sys.path_hooks[:] = [h for h in sys.path_hooks if "__editable__" not in getattr(h, "__module__", "")]
    sys.path_importer_cache.clear()
    if root in sys.path:
        sys.path.remove(root)
    sys.path.insert(0, root)
    stale = False
    for name, mod in list(sys.modules.items()):
        if name == "scoda" or name.startswith("scoda."):
            f = getattr(mod, "__file__", None)
            if f and not os.path.realpath(f).startswith(root + os.sep):
                stale = True
            if name == "scoda" and any(not os.path.realpath(p).startswith(root + os.sep) for p in list(mod.__path__)):
                stale = True
    if stale:
        if any(n.startswith("props.") or n == "symx.lib" for n in sys.modules):
            raise core.HarnessError("scoda was imported from another root before isolation")
        for name in list(sys.modules):
            if name == "scoda" or name.startswith("scoda."):
                del sys.modules[name]
    mods = {}
    for m in SCODA_MODULES:
        mods[m] = importlib.import_module(m)
    for name, mod in list(sys.modules.items()):
        if (name == "scoda" or name.startswith("scoda.")) and getattr(mod, "__file__", None):
            if not os.path.realpath(mod.__file__).startswith(root + os.sep):
                raise core.HarnessError(f"module {name} loaded from {mod.__file__}, not from {root}")
    sc = sys.modules["scoda"]
    paths = [os.path.realpath(p) for p in list(sc.__path__)]
    if any(not p.startswith(root + os.sep) for p in paths):
        raise core.HarnessError(f"scoda namespace path leaks outside {root}: {paths}")
    logging.disable(logging.CRITICAL)
    return mods


# --------------------------------------------------------------------------
# numpy proxy for scoda.misc.util (np.digitize(x, bins, right=True) on symbolic x)


class _DigitizeResult:
    def __init__(self, v):
        self.v = v

    def item(self, *a):
        return self.v


class NumpyProxy:
    def __init__(self, real_np):
        self._np = real_np

    def digitize(self, x, bins, right=False):
        if isinstance(x, SymInt):
            if not right:
                raise core.HarnessError("digitize shim only models right=True")
            if any(core.is_sym(b) for b in bins):
                raise core.HarnessError("digitize shim: symbolic bins")
            bl = list(bins)
            if bl != sorted(bl):
                raise core.HarnessError("digitize shim: bins not increasing")
            terms = []
            for b in bl:
                fr = core._frac_of_float(float(b))
                terms.append(z3.If(z3.ToReal(x.expr) > core._real_val(fr), 1, 0))
            return _DigitizeResult(mk_int(z3.simplify(z3.Sum(terms)) if len(terms) > 1 else terms[0],
                                          (0, len(bl))))
        return self._np.digitize(x, bins, right=right)

    def __getattr__(self, name):
        return getattr(self._np, name)


def validate_digitize(np, bins_lists):
    """Exhaustive comparison of the shim's arithmetic with numpy for all MIDI velocities."""
    n = 0
    for bins in bins_lists:
        for v in range(0, 128):
            want = int(np.digitize(v, bins, right=True))
            got = sum(1 for b in bins if v > b)
            if want != got:
                raise core.HarnessError(f"digitize shim disagrees with numpy at v={v} bins={bins}")
            n += 1
    return n


class ShimControl:
    """Installs / removes the shims around each symbolic path."""

    def __init__(self, root=None):
        self.root = root or repo_root()
        self.mods = isolate_imports(self.root)
        self.active = False
        self._saved = []
        import numpy
        self.np_proxy = NumpyProxy(numpy)
        self.extra_on = []    # callables(harness specific shims) -> undo callables
        self._extra_undo = []
        from . import kern
        self.fmd = kern.MergedFMD(self.mods["scoda.misc.util"].find_minimal_distance)
        self.fmd_validation = self.fmd.validate()
        self.merge_fmd = os.environ.get("VERIF_NO_MERGE", "") == ""

    def on(self):
        if self.active:
            return
        self.active = True
        for m in INT_SHADOW:
            mod = self.mods[m]
            self._saved.append((mod, "int", mod.__dict__.get("int", _MISSING)))
            mod.int = core.sym_int
        for m in FLOAT_SHADOW:
            mod = self.mods[m]
            self._saved.append((mod, "float", mod.__dict__.get("float", _MISSING)))
            mod.float = core.sym_float
        u = self.mods["scoda.misc.util"]
        self._saved.append((u, "np", u.np))
        u.np = self.np_proxy
        if self.merge_fmd and self.fmd.ok:
            for m in ("scoda.misc.util", "scoda.sequences.absolute_sequence"):
                mod = self.mods[m]
                if "find_minimal_distance" in mod.__dict__:
                    self._saved.append((mod, "find_minimal_distance", mod.__dict__["find_minimal_distance"]))
                    mod.find_minimal_distance = self.fmd
        for f in self.extra_on:
            self._extra_undo.append(f())

    def off(self):
        if not self.active:
            return
        self.active = False
        for mod, name, old in reversed(self._saved):
            if old is _MISSING:
                try:
                    delattr(mod, name)
                except AttributeError:
                    pass
            else:
                setattr(mod, name, old)
        self._saved = []
        for u in reversed(self._extra_undo):
            if u:
                u()
        self._extra_undo = []


_MISSING = object()


# --------------------------------------------------------------------------
# static guard: which builtins / library calls do the scoda sources use?

WATCH_NAMES = {"int", "float", "round", "isinstance", "type", "hash", "str", "repr", "divmod", "pow", "bool"}
ALLOW = None


def scan_sources(root=None):
    """-> {module: sorted list of watched builtins / np.* / math.* used}"""
    root = root or repo_root()
    out = {}
    base = os.path.join(root, "scoda")
    for dp, _, fns in os.walk(base):
        for fn in fns:
            if not fn.endswith(".py"):
                continue
            p = os.path.join(dp, fn)
            try:
                tree = ast.parse(open(p).read())
            except SyntaxError:
                continue
            used = set()
            for node in ast.walk(tree):
                if isinstance(node, ast.Call):
                    f = node.func
                    if isinstance(f, ast.Name) and f.id in WATCH_NAMES:
                        used.add(f.id)
                    elif isinstance(f, ast.Attribute) and isinstance(f.value, ast.Name) \
                            and f.value.id in ("np", "numpy", "math"):
                        used.add(f"{f.value.id}.{f.attr}")
            if used:
                out[os.path.relpath(p, root)] = sorted(used)
    return out
