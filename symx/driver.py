"""symx driver: schedules the queries of one property over worker processes,
aggregates, writes evidence / replay files, applies known findings, exit codes."""
from __future__ import annotations

import fnmatch
import hashlib
import importlib
import json
import multiprocessing as mp
import os
import subprocess
import sys
import time
from concurrent.futures import FIRST_COMPLETED, ProcessPoolExecutor, wait

VERIF = os.path.dirname(os.path.dirname(os.path.abspath(__file__)))
NPROC = int(os.environ.get("VERIF_JOBS", "16"))
CHUNK_PATHS = int(os.environ.get("VERIF_CHUNK", "120"))
CHUNK_SECS = 5.0

EXIT_OK, EXIT_VIOLATION, EXIT_INCONCLUSIVE, EXIT_HARNESS = 0, 1, 2, 3

_W = {}


def load_queries(pid, tier, seed):
    mod = importlib.import_module(f"props.{pid.lower()}")
    qs = mod.queries(tier, seed)
    flt = os.environ.get("VERIF_QUERY_FILTER")      # development aid: run only the queries whose id contains this text
    if flt:
        qs = [q for q in qs if flt in q.qid]
    ids = [q.qid for q in qs]
    if len(set(ids)) != len(ids):
        raise RuntimeError("duplicate query ids")
    return mod, qs


def _winit(pid, tier, seed):
    from symx import shims
    sys.setrecursionlimit(10000)
    ctl = shims.ShimControl()
    mod, qs = load_queries(pid, tier, seed)
    if hasattr(mod, "setup"):
        mod.setup(ctl)
    _W.update(ctl=ctl, qs=qs, seed=seed, mod=mod)


def _wtask(qidx, prefix, max_paths, secs, profile):
    from symx.run import Runner, TaskResult
    q = _W["qs"][qidx]
    res = TaskResult()
    try:
        r = Runner(q, _W["ctl"], seed=_W["seed"])
        r.explore(prefix, max_paths, time.perf_counter() + secs, res, want_profile=profile)
    except BaseException as ex:  # noqa
        import traceback
        res.error = "worker exception: " + traceback.format_exc()
    return qidx, res.__dict__


class QAgg:
    def __init__(self, q):
        self.q = q
        self.stats = {}
        self.reached = {}
        self.violations = []
        self.inconclusive = None
        self.error = None
        self.samples = []
        self.pruned = 0
        self.raised = {}
        self.functions = []
        self.outstanding = 0
        self.tasks = 0
        self.wall = 0.0

    def merge(self, d):
        for k, v in d["stats"].items():
            self.stats[k] = self.stats.get(k, 0) + v
        for k, v in d["reached"].items():
            self.reached[k] = self.reached.get(k, 0) + v
        for k, v in d["raised"].items():
            self.raised[k] = self.raised.get(k, 0) + v
        self.violations.extend(d["violations"])
        self.pruned += d["pruned"]
        self.wall += d["wall"]
        if d["inconclusive"] and not self.inconclusive:
            self.inconclusive = d["inconclusive"]
        if d["error"] and not self.error:
            self.error = d["error"]
        if len(self.samples) < 1:
            self.samples.extend(d["samples"][:1])
        if d["samples"]:
            self.samples[1:2] = d["samples"][-1:]
        if d["functions"]:
            self.functions = d["functions"]


def load_known():
    p = os.path.join(VERIF, "known_findings.json")
    if not os.path.exists(p):
        return {"findings": [], "fixed": []}
    return json.load(open(p))


def match_known(known, pid, v):
    for f in known.get("findings", []):
        if f.get("status", "open") != "open" or f["property"] != pid:
            continue
        if not fnmatch.fnmatchcase(v["clause"], f.get("clause", "*")):
            continue
        if not fnmatch.fnmatchcase(v["query"], f.get("query", "*")):
            continue
        if "disc" in f and not fnmatch.fnmatchcase(str(v.get("disc")), f["disc"]):
            continue
        return f
    return None


def run_check(pid, tier, seed, wall_cap=None, out_evidence=True, verbose=True):
    t0 = time.time()
    os.chdir(VERIF)
    from symx import shims
    ctl = shims.ShimControl()
    root = ctl.root
    mod, qs = load_queries(pid, tier, seed)
    meta = getattr(mod, "META", {})
    if wall_cap is None:
        wall_cap = meta.get("wall_cap", {}).get(tier, 900 if tier == "quick" else 3600)
    preflight = {"find_minimal_distance_summary": dict(ctl.fmd_validation, merge_mode=ctl.merge_fmd,
                                                         source="translated from the repository's current source by symx/kern.py")}
    if hasattr(mod, "preflight"):
        preflight.update(mod.preflight(ctl, tier, seed) or {})
    aggs = [QAgg(q) for q in qs]
    pending = []   # (qidx, prefix, max_paths, secs, profile)
    for i, q in enumerate(qs):
        pending.append((i, [], 40, 8.0, True))
    deadline = time.time() + wall_cap
    timed_out = False
    ctxmp = mp.get_context("fork")
    with ProcessPoolExecutor(max_workers=NPROC, mp_context=ctxmp, initializer=_winit,
                             initargs=(pid, tier, seed)) as ex:
        futs = set()
        while pending or futs:
            while pending and len(futs) < NPROC * 2:
                # fair share: prefer the query with the fewest tasks in flight (keeps every query progressing)
                bi = min(range(max(0, len(pending) - 64), len(pending)), key=lambda i: (aggs[pending[i][0]].outstanding, -i))
                t = pending.pop(bi)
                a = aggs[t[0]]
                if a.error or a.inconclusive:
                    continue
                if a.stats.get("paths", 0) > a.q.max_paths:
                    a.inconclusive = f"path budget {a.q.max_paths} exceeded"
                    continue
                a.outstanding += 1
                a.tasks += 1
                futs.add(ex.submit(_wtask, *t))
            if not futs:
                break
            done, futs = wait(futs, timeout=5, return_when=FIRST_COMPLETED)
            for f in done:
                qidx, d = f.result()
                a = aggs[qidx]
                a.outstanding -= 1
                a.merge(d)
                for p in d["leftovers"]:
                    pending.append((qidx, p, CHUNK_PATHS, CHUNK_SECS, False))
            if time.time() > deadline:
                timed_out = True
                for t in pending:
                    a = aggs[t[0]]
                    if not a.inconclusive:
                        a.inconclusive = f"wall cap {wall_cap}s reached with open prefixes"
                pending = []
    wall = time.time() - t0

    # ---------------- verdicts
    known = load_known()
    harness_errors, inconclusive, violations, known_hits = [], [], [], []
    for a in aggs:
        if a.error:
            # (violations found before the error are kept: each was replayed concretely and is re-confirmed below in a
            # fresh interpreter; hidden state in the code under test typically shows up as both)
            harness_errors.append((a.q.qid, a.error))
            for v in a.violations:
                k = match_known(known, pid, v)
                (known_hits if k else violations).append((v, k))
            continue
        if a.inconclusive:
            inconclusive.append((a.q.qid, a.inconclusive))
        for v in a.violations:
            k = match_known(known, pid, v)
            (known_hits if k else violations).append((v, k))
        if not a.inconclusive:
            if a.stats.get("paths", 0) == 0:
                harness_errors.append((a.q.qid, "vacuous: no feasible path (assumptions unsatisfiable?)"))
            for c in a.q.clauses:
                if a.reached.get(c, 0) == 0:
                    harness_errors.append((a.q.qid, f"vacuous: clause {c} never reached"))

    # property-specific solver checks outside the path engine (e.g. the QF_BVFP rescale kernel of C13)
    extras = []
    if hasattr(mod, "extra_checks"):
        extras = mod.extra_checks(ctl, tier, seed) or []
        for x in extras:
            if x.get("status") == "inconclusive":
                inconclusive.append(("extra/" + x["id"], x.get("reason", "")))
            elif x.get("status") == "violated":
                rep, detail = mod.replay_extra(x["id"], x["inputs"])
                if not rep:
                    harness_errors.append(("extra/" + x["id"], f"solver counterexample does not replay on the real code: {x['inputs']} ({detail})"))
                else:
                    v = {"query": "extra/" + x["id"], "clause": x.get("clause", x["id"]), "disc": None, "inputs": x["inputs"],
                         "detail": detail, "notes": {}}
                    k = match_known(known, pid, v)
                    (known_hits if k else violations).append((v, k))

    reached_all = _sumdict([a.reached for a in aggs])
    if not inconclusive:
        for c in getattr(mod, "REQUIRED", []):
            if reached_all.get(c, 0) == 0:
                harness_errors.append(("*", f"vacuous: clause {c} never reached by any query of the property"))

    # replay files + fresh-interpreter confirmation for new violations
    lines = []
    rdir = os.path.join(VERIF, "replays", pid)
    if os.path.isdir(rdir):
        for fn_ in os.listdir(rdir):
            if fn_.endswith(".json"):
                os.unlink(os.path.join(rdir, fn_))
    seen = set()
    for v, _ in violations:
        key = (v["query"], v["clause"], str(v.get("disc")))
        if key in seen:
            continue
        seen.add(key)
        os.makedirs(rdir, exist_ok=True)
        body = {"property": pid, "tier": tier, "seed": seed, "query": v["query"], "clause": v["clause"],
                "disc": v.get("disc"), "inputs": v["inputs"], "detail": v.get("detail", ""),
                "notes": v.get("notes", {})}
        h = hashlib.sha1(json.dumps(body, sort_keys=True, default=str).encode()).hexdigest()[:12]
        path = os.path.join(rdir, h + ".json")
        json.dump(body, open(path, "w"), indent=1, sort_keys=True, default=str)
        if len(lines) < 8:
            rc = subprocess.run([sys.executable, os.path.join(VERIF, "symx", "cli.py"), "replay", path],
                                capture_output=True, text=True, timeout=600,
                                env=dict(os.environ, VERIF_REPO=root))
            if rc.returncode != 1:
                harness_errors.append((v["query"], f"violation of {v['clause']} did not reproduce in a fresh "
                                                    f"interpreter (rc={rc.returncode}): {rc.stdout[-400:]} {rc.stderr[-400:]}"))
                continue
        lines.append(f"VIOLATION property={pid} replay={path}")
    printed_known = set()
    for v, k in known_hits:
        if k["what"] not in printed_known:
            printed_known.add(k["what"])
            print(f"KNOWN-FINDING: property={pid} {k['what']}")

    tot = {}
    for a in aggs:
        for k_, v_ in a.stats.items():
            tot[k_] = tot.get(k_, 0) + v_
    functions = sorted({f for a in aggs for f in a.functions})
    exhaustive = not inconclusive and not harness_errors
    samples = []
    for a in aggs:
        samples.extend(a.samples[-1:])
    samples = samples[:8]
    if harness_errors:
        code = EXIT_HARNESS
    elif lines:
        code = EXIT_VIOLATION
    elif inconclusive:
        code = EXIT_INCONCLUSIVE
    else:
        code = EXIT_OK
    if harness_errors and lines:
        # a violation that reproduced in a fresh interpreter stands on its own, whatever else went wrong
        code = EXIT_VIOLATION

    if out_evidence:
        ev = {
            "property_id": pid, "tier": tier, "seed": seed, "level": "model_checking",
            "wall_s": round(wall, 2),
            "violations": len(seen),
            "assumptions": list(meta.get("assumptions", [])) + [
                "z3 (python wheel) decides every branch feasibility and clause query; 'unknown' is never treated as held",
                "CPython semantics of the proxies (symx/core.py), guarded by per-path concrete cross-validation against the unshimmed real code",
            ],
            "coverage": {
                "states": max(tot.get("paths", 0), 0),
                "transitions": tot.get("decisions", 0) + tot.get("forced", 0),
                "traces_validated_against_impl": tot.get("xval", 0),
                "samples": samples or [{"note": "no path explored"}],
                "exhaustive": exhaustive,
                "technique": "symbolic execution of the real S-Coda functions (imported from the repository working tree) on z3 Int/Real proxies; "
                             "each clause discharged by check-sat of its negation under the path condition",
                "repo_root": root,
                "functions_encoded": functions,
                "bounds": (meta.get("bounds", {}).get(tier, meta.get("bounds")) if isinstance(meta.get("bounds"), dict) else meta.get("bounds", "")),
                "outside_claim": meta.get("outside_claim", []),
                "stubs": meta.get("stubs", []),
                "queries": len(qs),
                "queries_exhausted": sum(1 for a in aggs if not a.inconclusive and not a.error),
                "clause_queries_discharged": tot.get("must_queries", 0),
                "solver_checks": tot.get("solver_checks", 0),
                "solver_s": round(tot.get("solver_s", 0.0), 2),
                "solver_unknown": tot.get("unknown", 0),
                "solver_fallback_checks": tot.get("fallback_checks", 0),
                "paths_pruned_by_assumption": sum(a.pruned for a in aggs),
                "concretisations": tot.get("concretisations", 0),
                "clauses": sorted({c for a in aggs for c in a.reached}),
                "clause_reached_paths": _sumdict([a.reached for a in aggs]),
                "escaped_exceptions": _sumdict([a.raised for a in aggs]),
                "case_split": [{"query": a.q.qid, "desc": a.q.desc, "paths": a.stats.get("paths", 0),
                                "decisions": a.stats.get("decisions", 0), "solver_checks": a.stats.get("solver_checks", 0),
                                "status": ("error" if a.error else "inconclusive: " + a.inconclusive if a.inconclusive
                                           else "exhausted")} for a in aggs][:400],
                "known_findings_hit": sorted(printed_known),
                "new_violations": [{"query": v["query"], "clause": v["clause"], "disc": v.get("disc"),
                                    "inputs": v["inputs"]} for v, _ in violations][:20],
                "inconclusive": [{"query": q, "reason": r} for q, r in inconclusive][:50],
                "harness_errors": [{"query": q, "reason": r[:2000]} for q, r in harness_errors][:20],
                "preflight": preflight,
                "extra_solver_checks": extras,
                "source_scan": shims.scan_sources(root),
                "exit_code": code,
            },
        }
        os.makedirs(os.path.join(VERIF, "evidence"), exist_ok=True)
        evp = os.path.join(VERIF, "evidence", f"{pid}.json")
        tmp = evp + ".tmp"
        json.dump(ev, open(tmp, "w"), indent=1, default=str)
        os.replace(tmp, evp)

    for q, r in harness_errors[:10]:
        print(f"HARNESS-ERROR property={pid} query={q} reason={r[:3000]}")
    for q, r in inconclusive[:10]:
        print(f"INCONCLUSIVE property={pid} query={q} reason={r}")
    for ln in lines:
        print(ln)
    if verbose:
        print(f"[{pid} {tier}] queries={len(qs)} paths={tot.get('paths', 0)} decisions={tot.get('decisions', 0)} "
              f"solver_checks={tot.get('solver_checks', 0)} solver_s={tot.get('solver_s', 0):.1f} "
              f"xval={tot.get('xval', 0)} violations={len(lines)} known={len(printed_known)} "
              f"inconclusive={len(inconclusive)} errors={len(harness_errors)} wall={wall:.1f}s exit={code}")
    return code


def _sumdict(ds):
    out = {}
    for d in ds:
        for k, v in d.items():
            out[k] = out.get(k, 0) + v
    return out


def replay(path):
    """Re-run one recorded counterexample concretely against the repository (no proxies, no shims)."""
    body = json.load(open(path))
    from symx import shims
    from symx.run import Runner
    ctl = shims.ShimControl()
    mod, qs = load_queries(body["property"], body["tier"], body["seed"])
    if body["query"].startswith("extra/"):
        rep, detail = mod.replay_extra(body["query"][6:], body["inputs"])
        print("replay", body["property"], body["query"], "inputs", body["inputs"], "->", detail)
        print("REPRODUCED" if rep else "NOT-REPRODUCED")
        return EXIT_VIOLATION if rep else EXIT_OK
    q = next((q for q in qs if q.qid == body["query"]), None)
    if q is None:
        print("replay: query id not found:", body["query"])
        return EXIT_HARNESS
    r = Runner(q, ctl)
    ctx, out = r.run_concrete(body["inputs"])
    print("replay", body["property"], body["query"], "inputs", body["inputs"])
    print("outcome:", out[:3] if out[0] != "ok" else "ok")
    if ctx.notes:
        print("notes:", json.dumps(ctx.notes, default=str)[:4000])
    bad = False
    if body["clause"] == "no_unexpected_exception":
        bad = out[0] == "raised"
    for cid, f, disc in ctx.clauses:
        mark = ""
        if cid == body["clause"] and str(disc) == str(body.get("disc")) and f is False:
            bad = True
            mark = "  <-- violated"
        if f is False or mark:
            print(f"  clause {cid} disc={disc}: {f}{mark}")
    print("REPRODUCED" if bad else "NOT-REPRODUCED")
    return EXIT_VIOLATION if bad else EXIT_OK
