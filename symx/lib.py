"""Shared vocabulary of the harnesses: input builders and fork-free oracles.
Import only after symx.shims.isolate_imports() (done by the driver)."""
from __future__ import annotations

import itertools

from scoda.elements.message import Message
from scoda.enumerations.message_type import MessageType as MT
from scoda.misc.music_theory import Key
from scoda.sequences.absolute_sequence import AbsoluteSequence
from scoda.sequences.relative_sequence import RelativeSequence
from scoda.sequences.sequence import Sequence

from . import core
from .run import and_, count, eq, iff, implies, ite, not_, or_, sum_, is_float, is_int

ON, OFF, WAIT, TS, KS, PC, CC, INTERNAL = (MT.NOTE_ON, MT.NOTE_OFF, MT.WAIT, MT.TIME_SIGNATURE,
                                           MT.KEY_SIGNATURE, MT.PROGRAM_CHANGE, MT.CONTROL_CHANGE, MT.INTERNAL)
KEYS = list(Key)


def on(ch, note, vel, time=None):
    return Message(message_type=ON, channel=ch, note=note, velocity=vel, time=time)


def off(ch, note, time=None):
    return Message(message_type=OFF, channel=ch, note=note, time=time)


def wait(t, ch=0):
    return Message(message_type=WAIT, channel=ch, time=t)


def ts(num, den, time=None, ch=0):
    return Message(message_type=TS, channel=ch, numerator=num, denominator=den, time=time)


def ks(key, time=None, ch=0):
    return Message(message_type=KS, channel=ch, key=key, time=time)


def pc(program, time=None, ch=0):
    return Message(message_type=PC, channel=ch, program=program, time=time)


def rel_sequence(msgs):
    return Sequence(relative_sequence=RelativeSequence(list(msgs)))


def abs_sequence(msgs, presorted=False):
    a = AbsoluteSequence()
    for m in msgs:
        if presorted:
            a._add_message_unsorted(m)
        else:
            a.add_message(m)
    return Sequence(absolute_sequence=a)


# --------------------------------------------------------------------------
# raw views (never through library queries)


def raw_rel(seq):
    """messages of the relative view, as the library hands it out"""
    return list(seq.rel._messages)


def raw_abs(seq):
    return list(seq.abs._messages)


class Ev:
    """A timed event read from a raw view."""
    __slots__ = ("t", "m")

    def __init__(self, t, m):
        self.t = t
        self.m = m

    @property
    def kind(self):
        return self.m.message_type


def rel_events(msgs):
    """relative messages -> (events with accumulated time, total duration)"""
    t = 0
    evs = []
    for m in msgs:
        if m.message_type == WAIT:
            t = t + m.time
        else:
            evs.append(Ev(t, m))
    return evs, t


def abs_events(msgs):
    """absolute messages -> (non-internal events, duration = time of last message incl. INTERNAL cap)"""
    evs = []
    dur = 0
    for m in msgs:
        if m.message_type != INTERNAL:
            evs.append(Ev(m.time, m))
    if msgs:
        dur = msgs[-1].time
    return evs, dur


def msg_fields(m):
    return [m.message_type.value, m.channel, m.note, m.velocity, m.control, m.program, m.numerator,
            m.denominator, m.key.value if isinstance(m.key, Key) else m.key]


def obs_events(evs, dur=None):
    """observable (for cross-validation) of a timed event list"""
    o = [[e.t] + msg_fields(e.m) for e in evs]
    if dur is not None:
        o.append(["dur", dur])
    return o


def obs_rel(msgs):
    return [[m.time if m.message_type == WAIT else None] + msg_fields(m) for m in msgs]


def obs_abs(msgs):
    return [[m.time] + msg_fields(m) for m in msgs]


def field_eq(a, b):
    """fork-free equality of two message field values (None-aware)"""
    if a is None or b is None:
        return a is None and b is None
    return eq(a, b)


def msg_eq(ma, mb, with_velocity=True):
    if ma.message_type != mb.message_type:
        return False
    fs = [field_eq(ma.channel, mb.channel), field_eq(ma.note, mb.note),
          field_eq(ma.control, mb.control), field_eq(ma.program, mb.program),
          field_eq(ma.numerator, mb.numerator), field_eq(ma.denominator, mb.denominator),
          field_eq(ma.key, mb.key)]
    if with_velocity:
        fs.append(field_eq(ma.velocity, mb.velocity))
    return and_(fs)


def events_eq_positionwise(ea, eb):
    """same length, same kinds, equal times and fields position by position"""
    if len(ea) != len(eb):
        return False
    return and_([and_(eq(a.t, b.t), msg_eq(a.m, b.m)) for a, b in zip(ea, eb)])


def _mult_eq(items_a, items_b, same):
    """multiset equality as one formula: every element has the same multiplicity in both lists"""
    if len(items_a) != len(items_b):
        return False
    n = len(items_a)
    if n == 0:
        return True
    if n <= 3:
        m = [[same(a, b) for b in items_b] for a in items_a]
        alts = []
        for perm in itertools.permutations(range(n)):
            cs = [m[i][perm[i]] for i in range(n)]
            if any(c is False for c in cs):
                continue
            alts.append(and_(cs))
        return or_(alts) if alts else False
    cs = []
    for x in list(items_a) + list(items_b):
        ca = sum_([ite(same(x, y), 1, 0) for y in items_a])
        cb = sum_([ite(same(x, y), 1, 0) for y in items_b])
        cs.append(eq(ca, cb))
    return and_(cs)


def events_eq_multiset_timed(ea, eb):
    """Equality of timed event lists up to order (events sharing a tick may be ordered differently)."""
    return _mult_eq(ea, eb, lambda a, b: and_(eq(a.t, b.t), msg_eq(a.m, b.m)))


# --------------------------------------------------------------------------
# piano roll


def sounding_count(evs, c, p, tau):
    """#on(c,p, t<=tau) - #off(c,p, t<=tau): sum of ites, fork-free"""
    terms = []
    for e in evs:
        if e.kind == ON:
            terms.append(ite(and_(eq(e.m.channel, c), eq(e.m.note, p), e.t <= tau), 1, 0))
        elif e.kind == OFF:
            terms.append(ite(and_(eq(e.m.channel, c), eq(e.m.note, p), e.t <= tau), -1, 0))
    return sum_(terms)


def keys_of(*event_lists):
    ks_ = []
    for evs in event_lists:
        for e in evs:
            if e.kind in (ON, OFF):
                ks_.append((e.m.channel, e.m.note))
    return ks_


def roll_equal(ea, eb, tau, keys=None):
    """piano-roll equality at the probe tick tau for every occurring (channel, pitch)"""
    keys = keys if keys is not None else keys_of(ea, eb)
    return and_([iff(sounding_count(ea, c, p, tau) >= 1, sounding_count(eb, c, p, tau) >= 1) for c, p in keys])


def wellformed_alternation(evs):
    """per (c,p): on/off strictly alternate starting with on, ending with off, positive length.
    Fork-free: for each event, the count of its key just before it must be 0 (on) / 1 (off),
    in list order (list order = time order with ties resolved by position)."""
    cs = []
    for i, e in enumerate(evs):
        if e.kind not in (ON, OFF):
            continue
        bal = sum_([ite(and_(eq(f.m.channel, e.m.channel), eq(f.m.note, e.m.note)), 1 if f.kind == ON else -1, 0)
                    for f in evs[:i] if f.kind in (ON, OFF)])
        cs.append(eq(bal, 0) if e.kind == ON else eq(bal, 1))
    # closed at the end
    for i, e in enumerate(evs):
        if e.kind == ON:
            bal = sum_([ite(and_(eq(f.m.channel, e.m.channel), eq(f.m.note, e.m.note)), 1 if f.kind == ON else -1, 0)
                        for f in evs if f.kind in (ON, OFF)])
            cs.append(eq(bal, 0))
    return and_(cs)


def sorted_by_time(evs):
    return and_([evs[i].t <= evs[i + 1].t for i in range(len(evs) - 1)])


# --------------------------------------------------------------------------
# notes


class NoteV:
    __slots__ = ("ch", "pitch", "start", "end", "vel")

    def __init__(self, ch, pitch, start, end, vel):
        self.ch, self.pitch, self.start, self.end, self.vel = ch, pitch, start, end, vel

    def tup(self, velocity=True, channel=True):
        t = [self.pitch, self.start, self.end]
        if channel:
            t.append(self.ch)
        if velocity:
            t.append(self.vel)
        return t

    def obs(self):
        return [self.ch, self.pitch, self.start, self.end, self.vel]


def pair_notes(evs):
    """Pair note-ons with the next note-off of the same (channel, pitch) in list order.
    Key equality uses python == on the proxies (decided by the solver; no fork when the
    code under test already concretised the keys).  -> (notes, n_unpaired)"""
    open_ = []   # (event)
    notes = []
    unpaired = 0
    for e in evs:
        if e.kind == ON:
            open_.append(e)
        elif e.kind == OFF:
            hit = None
            for o in open_:
                if bool(and_(eq(o.m.channel, e.m.channel), eq(o.m.note, e.m.note))):
                    hit = o
                    break
            if hit is None:
                unpaired += 1
            else:
                open_.remove(hit)
                notes.append(NoteV(hit.m.channel, hit.m.note, hit.t, e.t, hit.m.velocity))
    unpaired += len(open_)
    return notes, unpaired


def tuples_eq(a, b):
    return and_([field_eq(x, y) for x, y in zip(a, b)])


def multiset_eq(la, lb):
    """multiset equality of two lists of tuples, as one formula"""
    return _mult_eq(la, lb, tuples_eq)


# --------------------------------------------------------------------------
# signatures in force


def in_force(evs, kind, tau, default):
    """fields of the last event of `kind` with time <= tau in list order (default if none).
    Returns a tuple of expressions; events assumed time-ordered."""
    cur = default
    for e in evs:
        if e.kind != kind:
            continue
        if kind == TS:
            val = (e.m.numerator, e.m.denominator)
        else:
            val = (KEYS.index(e.m.key) if isinstance(e.m.key, Key) else -1,)
        c = e.t <= tau
        cur = tuple(ite(c, v, d) for v, d in zip(val, cur))
    return cur


def call(fn, *a, **kw):
    """run fn; -> (True, result) or (False, exception). Only Exception is caught."""
    try:
        return True, fn(*a, **kw)
    except Exception as ex:  # noqa
        return False, ex


# --------------------------------------------------------------------------
# shape-based input builder


class Built:
    """Result of build_rel: the message list plus the expected music as formulas."""

    def __init__(self):
        self.msgs = []
        self.notes = []      # NoteV with formulas (only notes with both ON and OFF in the shape)
        self.events = []     # Ev for non-note events (expected time formulas)
        self.all_events = [] # Ev for all non-wait messages in shape order
        self.total = 0
        self.waits = []
        self.open = {}       # note index -> on-time, for notes never closed in the shape
        self.params = {}     # note index -> (ch, pitch, vel)


def build_rel(ctx, spec, pitch=(60, 61), chan=(0, 0), vel=(1, 127), wait=(1, 32), prefix="", meta_ch=0):
    """spec: list of "W" | ("W", lo, hi) | ("ON", i) | ("OFF", i) | ("TS", num, den) | ("KS", key) | ("PC", prog)
    Every note index i gets symbolic (channel, pitch, velocity) in the given ranges; every wait a
    symbolic length.  Returns Built (messages are fresh Message objects with time=None except waits)."""
    b = Built()
    t = 0
    wi = 0
    starts = {}
    for el in spec:
        kind = el if isinstance(el, str) else el[0]
        if kind == "W":
            lo, hi = wait if isinstance(el, str) or len(el) < 3 else (el[1], el[2])
            w = ctx.int(f"{prefix}w{wi}", lo, hi)
            wi += 1
            b.waits.append(w)
            b.msgs.append(globals()["wait"](w))
            t = t + w
            continue
        if kind in ("ON", "OFF"):
            i = el[1]
            if i not in b.params:
                c = chan[0] if chan[0] == chan[1] else ctx.int(f"{prefix}c{i}", chan[0], chan[1])
                p = pitch[0] if pitch[0] == pitch[1] else ctx.int(f"{prefix}p{i}", pitch[0], pitch[1])
                v = vel[0] if vel[0] == vel[1] else ctx.int(f"{prefix}v{i}", vel[0], vel[1])
                b.params[i] = (c, p, v)
            c, p, v = b.params[i]
            if kind == "ON":
                m = on(c, p, v)
                starts[i] = t
            else:
                m = off(c, p)
                if i in starts:
                    b.notes.append(NoteV(c, p, starts.pop(i), t, v))
            b.msgs.append(m)
            b.all_events.append(Ev(t, m.copy()))
            continue
        if kind == "TS":
            m = ts(el[1], el[2], ch=meta_ch)
        elif kind == "KS":
            m = ks(el[1], ch=meta_ch)
        elif kind == "PC":
            m = pc(el[1], ch=meta_ch)
        else:
            raise core.HarnessError(f"bad spec element {el!r}")
        b.msgs.append(m)
        mc = m.copy()          # expectations never alias the messages handed to the code under test
        b.events.append(Ev(t, mc))
        b.all_events.append(Ev(t, mc))
    b.total = t
    b.open = starts
    return b


def distinct_keys_or_disjoint(ctx, notes):
    """well-formedness of an explicit note list: notes sharing (channel, pitch) do not overlap
    (half-open intervals) and every note has positive length"""
    cs = []
    for n in notes:
        cs.append(n.end > n.start)
    for i in range(len(notes)):
        for j in range(i + 1, len(notes)):
            a, b = notes[i], notes[j]
            same = and_(eq(a.ch, b.ch), eq(a.pitch, b.pitch))
            cs.append(implies(same, or_(a.end <= b.start, b.end <= a.start)))
    return and_(cs)
