"""C06 Note-length quantisation yields only allowed durations and never moves onsets."""
from symx.run import Query
from symx.lib import *  # noqa
from scoda.misc.util import get_default_note_values

META = {
    "bounds": {
        "quick": "value lists {[6,12,24],[24,12,6],[4,6,12],[12],[6,48],default(9 values)} x extension on/off; shapes: 1 note, 2 notes "
                 "back to back on one (channel,pitch) with symbolic gap >= 0, 2 notes with symbolic channel/pitch (same pitch on two "
                 "channels reachable), + one key-signature event; waits (durations and gaps) 1..30 (default list: 1..40, 1-2 notes); input given as relative messages or as absolute messages inserted with the later note first",
        "thorough": "as quick plus 3 notes back to back (small lists), waits 1..40, default list with 2 symbolic notes + event",
    },
    "outside_claim": ["more than 3 notes", "value lists other than the five listed", "unclosed notes (standard_length imputation)"],
    "stubs": ["int() shadowed", "logging disabled",
              "find_minimal_distance replaced by an ite-merged summary translated from its current source (validated at start-up and by per-path cross-validation)"],
}

LISTS = {"dup": [6, 12, 12, 24], "gap": [6, 48], "asc": [6, 12, 24], "desc": [24, 12, 6], "fine": [4, 6, 12], "one": [12], "default": None}
SHAPES = {
    "n1": ["W", ("ON", 0), "W", ("OFF", 0), "W"],
    "n1b": [("ON", 0), "W", ("OFF", 0)],
    "n2same": [("ON", 0), "W", ("OFF", 0), ("W", 0, 30), ("ON", 1), "W", ("OFF", 1), "W"],
    "n2free": [("ON", 0), "W", ("ON", 1), "W", ("OFF", 0), "W", ("OFF", 1), "W"],
    "n2ev": [("KS", KEYS[5]), ("ON", 0), "W", ("OFF", 0), ("TS", 3, 4), ("ON", 1), "W", ("OFF", 1)],
    "n3same": [("ON", 0), "W", ("OFF", 0), ("W", 0, 20), ("ON", 1), "W", ("OFF", 1), ("ON", 2), "W", ("OFF", 2), "W"],
}
FREE = {"n2free"}


def q_qnl(shape, lname, noext, wmax, insertion="relative"):
    values = LISTS[lname]

    def fn(ctx):
        vals = list(values) if values is not None else list(get_default_note_values())
        free = shape in FREE
        b = build_rel(ctx, SHAPES[shape], pitch=(60, 61) if free else (60, 60), chan=(0, 1) if free else (0, 0), wait=(1, wmax))
        # zero-length waits are legal gaps; drop them from the message list so the input stays canonical
        b.msgs = [m for m in b.msgs if not (m.message_type == WAIT and isinstance(m.time, int) and m.time == 0)]
        ctx.assume(distinct_keys_or_disjoint(ctx, b.notes))
        if insertion in ("relative", "via_quantise_and_normalise"):
            seq = rel_sequence(b.msgs)
        else:
            # absolute messages added through the public API with the LATER note first (ties keep insertion order)
            ms = []
            for n in reversed(b.notes):
                ms.append(on(n.ch, n.pitch, n.vel, time=n.start))
                ms.append(off(n.ch, n.pitch, time=n.end))
            for e in b.events:
                m_ = e.m.copy()
                m_.time = e.t
                ms.append(m_)
            seq = abs_sequence(ms)
        if insertion == "via_quantise_and_normalise":
            # the combined entry point with a grid of every tick (onsets cannot move) must honour the same arguments
            seq.quantise_and_normalise(step_sizes=[1], note_values=list(values), do_not_extend=noext)
        elif values is None:
            seq.quantise_note_lengths(do_not_extend=noext)
        else:
            seq.quantise_note_lengths(list(values), do_not_extend=noext)
        ea, da = abs_events(raw_abs(seq))
        out, unp = pair_notes(ea)
        ctx.must("paired", unp == 0)
        ins = b.notes
        # next onset of the same (channel, pitch)
        INF = 10 ** 6
        nxt = []
        for i, n in enumerate(ins):
            cand = INF
            for j in range(len(ins) - 1, -1, -1):
                if j == i:
                    continue
                m = ins[j]
                later = and_(eq(m.ch, n.ch), eq(m.pitch, n.pitch), m.start >= n.end)
                cand = ite(and_(later, m.start < cand), m.start, cand)
            nxt.append(cand)

        def fits(i, v):
            n = ins[i]
            c = n.start + v <= nxt[i]
            if noext:
                c = and_(c, v <= n.end - n.start)
            return c

        def match(o, n):
            return and_(eq(o.ch, n.ch), eq(o.pitch, n.pitch), eq(o.start, n.start))

        ctx.must("durations_allowed", and_([or_([eq(o.end - o.start, v) for v in vals]) for o in out]))
        ctx.must("notes_are_input_notes", and_([or_([and_(match(o, n), eq(o.vel, n.vel)) for n in ins]) for o in out]))
        ctx.must("no_duplicates", and_([not_(and_(match(out[a], out[c]))) for a in range(len(out)) for c in range(a + 1, len(out))]))
        ctx.must("no_overlap", distinct_keys_or_disjoint(ctx, out))
        if noext:
            ctx.must("never_longer", and_([implies(match(o, n), o.end - o.start <= n.end - n.start) for o in out for n in ins]))
        ctx.must("removed_iff_nothing_fits",
                 and_([iff(or_([match(o, n) for o in out]), or_([fits(i, v) for v in vals])) for i, n in enumerate(ins)]))
        best = []
        for o in out:
            for i, n in enumerate(ins):
                old = n.end - n.start
                d = o.end - o.start
                isv = or_([and_(eq(d, v), fits(i, v)) for v in vals])
                closest = and_([implies(fits(i, v), abs(d - old) <= abs(v - old)) for v in vals])
                best.append(implies(match(o, n), and_(isv, closest)))
        ctx.must("closest_fitting_value", and_(best))
        other = [e for e in ea if e.kind not in (ON, OFF)]
        ctx.must("other_events_untouched", events_eq_multiset_timed(other, b.events))
        # the result is the sequence's content through either view
        er_, _dr = rel_events(raw_rel(seq))
        ctx.must("relative_view_follows", events_eq_multiset_timed(er_, ea))
        return [obs_events(ea, da)]
    cl = ["paired", "durations_allowed", "notes_are_input_notes", "no_duplicates", "no_overlap", "removed_iff_nothing_fits",
          "closest_fitting_value", "other_events_untouched", "relative_view_follows"] + (["never_longer"] if noext else [])
    return Query(f"{shape}/{lname}/{'noext' if noext else 'ext'}/w{wmax}{'/' + insertion if insertion != 'relative' else ''}", fn, cl,
                 desc=f"quantise_note_lengths({values if values else 'default'}, do_not_extend={noext}) on shape {shape}")


def queries(tier, seed):
    qs = []
    if tier == "quick":
        for ln in ("asc", "desc", "fine", "one"):
            for noext in (False, True):
                for s in ("n1", "n2same", "n2free", "n2ev"):
                    qs.append(q_qnl(s, ln, noext, 30))
        for noext in (False, True):
            qs.append(q_qnl("n1", "default", noext, 40))
            qs.append(q_qnl("n2same", "default", noext, 20))
            qs.append(q_qnl("n2same", "gap", noext, 50))
            qs.append(q_qnl("n2same", "dup", noext, 30))          # a value list with a repeated entry
            qs.append(q_qnl("n2same", "fine", noext, 16, insertion="via_quantise_and_normalise"))
            qs.append(q_qnl("n2same", "desc", noext, 30, insertion="late-first"))
            qs.append(q_qnl("n2same", "asc", noext, 30, insertion="late-first"))
    else:
        for ln in ("asc", "desc", "fine", "one"):
            for noext in (False, True):
                for s in ("n1", "n1b", "n2same", "n2free", "n2ev", "n3same"):
                    qs.append(q_qnl(s, ln, noext, 40 if s != "n3same" else 24))
        for noext in (False, True):
            qs.append(q_qnl("n1", "default", noext, 60))
            qs.append(q_qnl("n2same", "default", noext, 40))
            qs.append(q_qnl("n2ev", "default", noext, 30))
            qs.append(q_qnl("n2free", "default", noext, 24))
            qs.append(q_qnl("n2same", "gap", noext, 60))
            qs.append(q_qnl("n3same", "gap", noext, 30))
            qs.append(q_qnl("n2same", "dup", noext, 40))
            for ln in ("asc", "desc", "fine"):
                qs.append(q_qnl("n2same", ln, noext, 40, insertion="late-first"))
                qs.append(q_qnl("n3same", ln, noext, 20, insertion="late-first"))
    return qs
