"""C04 Absolute and relative views of a Sequence never diverge under any history.

One inductive step from every freshness state (relative fresh with stale garbage in the absolute slot, absolute fresh
with stale garbage in the relative slot, both fresh), each reached through the public API only; the step alphabet
covers the public Sequence operations with symbolic arguments.  DESIGN.md section 4 C04."""
from symx.run import Query
from symx.lib import *  # noqa

META = {
    "bounds": {
        "quick": "contents of <=2 notes (+TS) in conversion normal form (3 shapes incl. one without trailing rest), pitch 60..61, "
                 "channel 0..1, waits 1..10, one step of the 39-operation alphabet with symbolic arguments from each of the three "
                 "freshness states (stale slot holding an unrelated sequence), state size <= 9 messages",
        "thorough": "as quick with waits 1..16, an ill-formed content (re-triggered note) and two-step sequences generator-step ; any step",
    },
    "outside_claim": ["contents larger than 2 notes + 1 signature", "time edits through messages_abs() that break the time order "
                      "(documented as out-of-turn editing)", "histories are covered by induction over ONE step from an arbitrary "
                      "state satisfying the invariant (>=1 view fresh; fresh views agree), not by enumeration"],
    "stubs": ["int() shadowed", "logging disabled", "find_minimal_distance ite-merged summary"],
}

CONTENTS = {
    "rest": ["W"],
    "n1": [("ON", 0), "W", ("OFF", 0), "W"],
    "n2": [("TS", 3, 4), ("ON", 0), "W", ("ON", 1), "W", ("OFF", 0), "W", ("OFF", 1)],
    "n2t": ["W", ("ON", 0), "W", ("OFF", 0), ("ON", 1), "W", ("OFF", 1), "W"],
    "n2g": ["W", ("ON", 0), "W", ("OFF", 0), "W", ("ON", 1), "W", ("OFF", 1), "W"],
    "ill": [("ON", 0), "W", ("ON", 1), "W", ("OFF", 0), "W"],
}
GARBAGE = lambda: [on(3, 70, 9), wait(3, ch=3), off(3, 70), wait(2, ch=3)]  # noqa


def abs_msgs(b, spec):
    ms = []
    for e in b.all_events:
        m = e.m.copy()
        m.time = e.t
        ms.append(m)
    if spec and spec[-1] == "W" or (spec and isinstance(spec[-1], tuple) and spec[-1][0] == "W"):
        ms.append(Message(message_type=INTERNAL, channel=ms[0].channel if ms else 0, time=b.total))
    return ms


def make_state(b, spec, fresh):
    """the same content in one of the freshness states, reached through public calls only"""
    if fresh == "rel":
        s = rel_sequence(GARBAGE())
        s.abs                                   # absolute view now holds the garbage
        s.overwrite_relative_messages([m.copy() for m in b.msgs])
        return s
    if fresh == "abs":
        s = rel_sequence(GARBAGE())
        s.rel
        s.overwrite_absolute_messages(abs_msgs(b, spec))
        return s
    if fresh == "both_from_rel":
        s = rel_sequence([m.copy() for m in b.msgs])
        s.abs
        return s
    if fresh == "both_from_abs":
        s = Sequence()
        s.overwrite_absolute_messages(abs_msgs(b, spec))
        s.rel
        return s
    raise ValueError(fresh)


FRESH = ["rel", "abs", "both_from_rel", "both_from_abs"]


class Snap:
    def __init__(self, seq):
        self.ok = True
        self.exc = None
        try:
            rel = seq.rel
            ab = seq.abs
            self.er, self.dr = rel_events(list(rel._messages))
            self.ea, self.da = abs_events(list(ab._messages))
        except Exception as ex:  # noqa
            self.ok = False
            self.exc = type(ex).__name__
            self.er, self.dr, self.ea, self.da = [], 0, [], 0

    def views_agree(self):
        return and_(events_eq_multiset_timed(self.er, self.ea), eq(self.dr, self.da))

    def same(self, o):
        return and_(events_eq_multiset_timed(self.er, o.er), eq(self.dr, o.dr))

    def obs(self):
        return [self.ok, obs_events(self.er, self.dr), obs_events(self.ea, self.da)]


# ------------------------------------------------------------------ step alphabet
def _other(ctx):
    return rel_sequence([on(1, 64, 7), wait(ctx.args["ow"], ch=1), off(1, 64), wait(2, ch=1)])


def st_add_abs(ctx, s):
    s.add_absolute_message(on(0, 72, 5, time=ctx.args["t"]))
    s.add_absolute_message(off(0, 72, time=ctx.args["t"] + ctx.args["d"]))


def st_add_abs_internal_marker(ctx, s):
    # (the detokeniser adds bar / end markers this way)
    s.add_absolute_message(Message(message_type=INTERNAL, channel=0, time=200 + ctx.args["t"]))


def st_add_rel_end(ctx, s):
    s.add_relative_message(wait(ctx.args["d"]))


def st_add_rel_index(ctx, s):
    s.add_relative_message(wait(ctx.args["d"]), index=1)


def st_concatenate(ctx, s):
    s.concatenate([_other(ctx)])


def st_cutoff(ctx, s):
    s.cutoff(ctx.args["m"], ctx.args["r"])


def st_merge(ctx, s):
    s.merge([_other(ctx)])


def st_normalise(ctx, s):
    s.normalise()


def st_overwrite_abs(ctx, s):
    s.overwrite_absolute_messages([on(0, 65, 3, time=ctx.args["t"]), off(0, 65, time=ctx.args["t"] + ctx.args["d"])])


def st_overwrite_abs_unordered(ctx, s):
    # the caller's list need not be ordered by time
    t, d = ctx.args["t"], ctx.args["d"]
    s.overwrite_absolute_messages([off(0, 65, time=t + d + 3), on(0, 66, 4, time=t + d), off(0, 66, time=t + d + 1), on(0, 65, 3, time=t)])


def st_overwrite_rel(ctx, s):
    s.overwrite_relative_messages([wait(ctx.args["d"]), on(0, 65, 3), wait(ctx.args["t"] + 1), off(0, 65)])


def st_pad(ctx, s):
    s.pad(ctx.args["p"])


def st_set_channel(ctx, s):
    s.set_channel(ctx.args["c"])


def st_split(ctx, s):
    return s.split([ctx.args["p"]])


def st_split_then_edit_pieces(ctx, s):
    s.abs                                       # the source's absolute view exists
    pieces = s.split([ctx.args["p"]])
    for pc_ in pieces:
        pc_.transpose(1)
        pc_.set_channel(3)
        for m in pc_.messages_rel():
            if m.message_type == WAIT:
                m.time = m.time + 1


def st_split_bars_then_edit(ctx, s):
    s.abs
    bars = Sequence.sequences_split_bars([s], 0, quantise_note_lengths=False)
    for b_ in bars[0]:
        b_.sequence.transpose(1)
        b_.sequence.set_channel(3)


def st_scale(ctx, s):
    s.scale(ctx.args["k"], quantise_afterwards=False)


def st_scale_half_self_meta(ctx, s):
    # factor < 1 goes through bar splitting of the meta sequence, which may be the sequence itself
    s.scale(0.5, meta_sequence=s, quantise_afterwards=False)


def st_scale_half(ctx, s):
    s.scale(0.5, quantise_afterwards=False)


def st_transpose(ctx, s):
    s.transpose(ctx.args["n"])


def st_transpose_wrap(ctx, s):
    s.transpose(60 + ctx.args["n"])          # leaves the playable range: octave wrap, normalise, re-quantisation


def st_quantise(ctx, s):
    s.quantise([4])


def st_qnl(ctx, s):
    s.quantise_note_lengths([3, 6])


def st_quantise_and_normalise(ctx, s):
    s.quantise_and_normalise([4], [4, 8])


def st_copy(ctx, s):
    return [s.copy()]


def st_refresh(ctx, s):
    s.refresh()


def st_read_abs(ctx, s):
    s.abs


def st_read_rel(ctx, s):
    s.rel


def st_readers(ctx, s):
    s.get_message_pairings()
    s.get_interleaved_message_pairings()
    s.get_message_times_of_type([TS])
    s.get_sequence_duration()
    s.is_empty()
    s.to_midi_track()


def st_equals_other(ctx, s):
    s.equals(_other(ctx))
    s == _other(ctx)


def _edit_rel(ctx, m):
    if m.message_type == WAIT:
        m.time = m.time + ctx.args["d"]
    elif m.message_type in (ON, OFF):
        m.note = m.note + 2


def st_iter_rel_edit_all(ctx, s):
    for m in s.messages_rel():
        _edit_rel(ctx, m)


def st_iter_rel_edit_break(ctx, s):
    for j, m in enumerate(s.messages_rel()):
        if j == ctx.args["j"]:
            _edit_rel(ctx, m)
            break


def st_iter_rel_read_then_edit_break(ctx, s):
    for j, m in enumerate(s.messages_rel()):
        if j == ctx.args["j"]:
            s.get_sequence_duration()          # answered by the absolute view, which becomes fresh again
            _edit_rel(ctx, m)
            break


def st_iter_rel_read_then_edit_last(ctx, s):
    last = None
    for m in s.messages_rel():
        last = m
        s.is_channel_consistent()
        if m.message_type == WAIT:
            m.time = m.time + ctx.args["d"]


def st_iter_rel_suspended(ctx, s):
    g = s.messages_rel()
    m = next(g)
    _edit_rel(ctx, m)
    s.abs                                       # read while the generator is suspended
    m2 = next(g, None)
    if m2 is not None:
        _edit_rel(ctx, m2)
    g.close()


def st_iter_abs_edit_all(ctx, s):
    for m in s.messages_abs():
        m.time = m.time + ctx.args["d"]        # uniform shift keeps the order
        if m.message_type == ON:
            m.velocity = 1 + (m.velocity % 127)


def st_iter_abs_edit_break(ctx, s):
    for j, m in enumerate(s.messages_abs()):
        if m.message_type == ON:
            m.velocity = 1 + (m.velocity % 127)
            if j >= ctx.args["j"]:
                break


def st_iter_abs_read_then_edit_break(ctx, s):
    for j, m in enumerate(s.messages_abs()):
        if j == ctx.args["j"]:
            s.is_empty()                        # answered by the relative view, which becomes fresh again
            if m.message_type in (ON, OFF):
                m.channel = m.channel + 2
            break


def st_iter_abs_suspended(ctx, s):
    g = s.messages_abs()
    m = next(g)
    if m.message_type == ON:
        m.velocity = 1 + (m.velocity % 127)
    s.rel
    m2 = next(g, None)
    if m2 is not None and m2.message_type == ON:
        m2.velocity = 1 + (m2.velocity % 127)
    g.close()


def st_iter_abs_still_suspended(ctx, s):
    # edit, read the other view, advance, edit again - and leave the generator suspended while the views are compared
    g = s.messages_abs()
    ctx.keep.append(g)
    edited = 0
    for m in g:
        if m.message_type == ON:
            m.velocity = 1 + (m.velocity % 127)
            edited += 1
            if edited == 2:
                return
            s.rel


def st_iter_rel_still_suspended(ctx, s):
    g = s.messages_rel()
    ctx.keep.append(g)
    edited = 0
    for m in g:
        if m.message_type == ON:
            m.velocity = 1 + (m.velocity % 127)
            edited += 1
            if edited == 2:
                return
            s.abs


STEPS = {k[3:]: v for k, v in list(globals().items()) if k.startswith("st_")}


def mkargs(ctx):
    a = {"t": ctx.int("a_t", 0, 12), "d": ctx.int("a_d", 1, 6), "m": ctx.int("a_m", 1, 12), "r": ctx.int("a_r", 1, 12),
         "p": ctx.int("a_p", 1, 40), "c": ctx.int("a_c", 0, 3), "k": 2, "n": ctx.int("a_n", -2, 2),
         "j": ctx.int("a_j", 0, 8), "ow": ctx.int("a_ow", 1, 6)}
    ctx.assume(a["r"] <= a["m"])
    return a


def q_step(step, content, wmax):
    spec = CONTENTS[content]

    def fn(ctx):
        b = build_rel(ctx, spec, pitch=(60, 61), chan=(0, 1), wait=(1, wmax))
        if content != "ill":
            ctx.assume(distinct_keys_or_disjoint(ctx, b.notes))
        ctx.args = mkargs(ctx)
        ctx.keep = []                # generators a step leaves suspended stay alive until the views were compared
        posts = []
        excs = []
        extras = []
        for fr in FRESH:
            s = make_state(b, spec, fr)
            ok, res = call(STEPS[step], ctx, s)
            excs.append(None if ok else type(res).__name__)
            sn = Snap(s)
            posts.append(sn)
            ex = []
            if ok and isinstance(res, list):
                ex = [Snap(x) for x in res]
            extras.append(ex)
        ctx.note("exceptions", excs)
        ctx.must("same_exception_from_every_freshness_state", len(set(excs)) == 1, disc=step)
        if any(e is not None for e in excs):
            return [excs] + [p.obs() for p in posts]
        ctx.must("readable", all(p.ok for p in posts), disc=step)
        ctx.must("views_agree", and_([p.views_agree() for p in posts]), disc=step)
        ctx.must("freshness_independent", and_([posts[0].same(p) for p in posts[1:]]), disc=step)
        if extras[0]:
            same_n = all(len(e) == len(extras[0]) for e in extras)
            ctx.must("derived_readable_and_agree", same_n and all(x.ok for e in extras for x in e)
                     and and_([x.views_agree() for e in extras for x in e]), disc=step)
            if same_n:
                ctx.must("derived_freshness_independent",
                         and_([extras[0][i].same(e[i]) for e in extras[1:] for i in range(len(e))]), disc=step)
        return [p.obs() for p in posts] + [[x.obs() for x in e] for e in extras]
    return Query(f"step/{step}/{content}/w{wmax}", fn, ["same_exception_from_every_freshness_state"],
                 desc=f"{step} from every freshness state, content {content}")


def q_conversion(content, wmax):
    spec = CONTENTS[content]

    def fn(ctx):
        b = build_rel(ctx, spec, pitch=(60, 61), chan=(0, 1), wait=(1, wmax))
        ctx.assume(distinct_keys_or_disjoint(ctx, b.notes))
        out = []
        for fr in FRESH:
            sn = Snap(make_state(b, spec, fr))
            out.append(sn)
            ctx.must("state_readable", sn.ok, disc=fr)
            ctx.must("conversion_keeps_events", and_(events_eq_multiset_timed(sn.er, b.all_events),
                                                     events_eq_multiset_timed(sn.ea, b.all_events)), disc=fr)
            ctx.must("conversion_keeps_duration", and_(eq(sn.dr, b.total), eq(sn.da, b.total)), disc=fr)
        # there and back again
        s = make_state(b, spec, "rel")
        back = Sequence(absolute_sequence=s.abs.copy())
        again = Sequence(relative_sequence=back.rel.copy())
        s3 = Snap(again)
        ctx.must("rel_abs_rel_roundtrip", and_(s3.ok, events_eq_multiset_timed(s3.er, b.all_events), eq(s3.dr, b.total),
                                               eq(s3.da, b.total)))
        return [x.obs() for x in out] + [s3.obs()]
    return Query(f"conversion/{content}/w{wmax}", fn,
                 ["state_readable", "conversion_keeps_events", "conversion_keeps_duration", "rel_abs_rel_roundtrip"],
                 desc="conversions alone lose no event and no duration")


def q_two_steps(s1, s2, content, wmax):
    spec = CONTENTS[content]

    def fn(ctx):
        b = build_rel(ctx, spec, pitch=(60, 61), chan=(0, 0), wait=(1, wmax))
        ctx.assume(distinct_keys_or_disjoint(ctx, b.notes))
        ctx.args = mkargs(ctx)
        ctx.keep = []
        posts, excs = [], []
        for fr in ("rel", "abs", "both_from_rel"):
            s = make_state(b, spec, fr)
            ok1, _ = call(STEPS[s1], ctx, s)
            ok2, _ = call(STEPS[s2], ctx, s) if ok1 else (False, None)
            excs.append((ok1, ok2))
            posts.append(Snap(s))
        ctx.must("same_exception_from_every_freshness_state", len(set(excs)) == 1, disc=f"{s1};{s2}")
        if not all(a and c for a, c in excs):
            return [excs]
        ctx.must("readable", all(p.ok for p in posts), disc=f"{s1};{s2}")
        ctx.must("views_agree", and_([p.views_agree() for p in posts]), disc=f"{s1};{s2}")
        ctx.must("freshness_independent", and_([posts[0].same(p) for p in posts[1:]]), disc=f"{s1};{s2}")
        return [p.obs() for p in posts]
    return Query(f"two/{s1};{s2}/{content}/w{wmax}", fn, ["same_exception_from_every_freshness_state"],
                 desc=f"{s1} then {s2}")


REQUIRED = ["readable", "views_agree", "freshness_independent", "derived_readable_and_agree", "derived_freshness_independent"]


def queries(tier, seed):
    qs = []
    wmax = 10 if tier == "quick" else 16
    for c in ("rest", "n1", "n2", "n2t"):
        qs.append(q_conversion(c, wmax))
    for st in ("pad", "read_abs", "readers", "copy", "add_abs", "normalise", "set_channel", "split", "concatenate", "merge"):
        qs.append(q_step(st, "rest", 10))
    for st in STEPS:
        heavy = st in ("quantise", "qnl", "quantise_and_normalise", "merge", "cutoff", "transpose_wrap", "scale_half_self_meta", "scale_half", "split_bars_then_edit")
        # position-sensitive steps (j-th yielded message, insertion index) are only meaningful on the list the caller sees,
        # so contents of step queries have no simultaneous events in non-canonical order (conversion normal form)
        for c in (("n1", "n2g") if tier == "quick" else ("n1", "n2", "n2g", "ill")):
            w = wmax if not heavy else min(wmax, 6)
            if c != "n1" and heavy:
                w = 4
            qs.append(q_step(st, c, w))
        if tier == "quick" and not heavy:
            qs.append(q_step(st, "n2", 6))
        if tier == "quick" and st == "cutoff":
            qs.append(q_step(st, "n2", 4))       # a shortened note whose new end lands before events inside it
    if tier == "thorough":
        gens = [k for k in STEPS if k.startswith("iter_")]
        seen2 = set()
        for g in gens:
            for st in ("read_abs", "read_rel", "pad", "set_channel", "transpose", "normalise", "add_abs", "copy", "refresh",
                       "iter_rel_edit_break", "iter_abs_edit_break"):
                for a_, b_ in ((g, st), (st, g)):
                    if (a_, b_) not in seen2:
                        seen2.add((a_, b_))
                        qs.append(q_two_steps(a_, b_, "n1", 6))
    return qs
