"""C11 Tick values stay integers through every operation."""
import re

from symx.run import Query
from symx.lib import *  # noqa
from scoda.elements.bar import Bar
from scoda.elements.composition import Composition
from scoda.tokenisation.notelike_tokenisation import MultiTrackLargeVocabularyNotelikeTokeniser as Tokeniser

META = {
    "bounds": {
        "quick": "integer-tick inputs of <=2 notes per sequence (2 shapes; waits 1..8 ticks (1..3 / 1..4 for the two-track and the overlapping shapes), or multiples of 12 for the tokeniser), "
                 "every operation of the alphabet once with symbolic integer arguments; bars shorter than their capacity and two "
                 "tracks of unequal length included",
        "thorough": "as quick with waits 1..12 and all two-step chains op2(op1(x)) over the sequence-to-sequence operations",
    },
    "outside_claim": ["chains longer than two operations", "scale factors below 1 (documented as producing shorter notes via bars)",
                      "non-integer arguments"],
    "stubs": ["int() shadowed in scoda modules (identity on SymInt, truncation on SymFloat)", "np.digitize ite-sum", "logging disabled"],
}

S0 = ["W", ("ON", 0), "W", ("OFF", 0)]
S1 = [("ON", 0), "W", ("OFF", 0), "W", ("ON", 1), "W", ("OFF", 1)]
S2 = ["W", ("ON", 0), "W", ("ON", 1), "W", ("OFF", 0), "W", ("OFF", 1), "W"]
TOKEN_RE = re.compile(r"^(rst|val)_(.*)$")


def all_int_times(seq):
    bad = []
    for view, msgs in (("rel", raw_rel(seq)), ("abs", raw_abs(seq))):
        for m in msgs:
            if m.time is not None and not is_int(m.time):
                bad.append(f"{view}:{m.message_type.value}:{type(m.time).__name__}")
    return bad


def mk(ctx, spec, wmax, prefix="", mult=1, chan=(0, 0), pitch=(60, 61), vel=(1, 127)):
    b = build_rel(ctx, spec, pitch=pitch, chan=chan, wait=(1, wmax), prefix=prefix, vel=vel)
    if mult != 1:
        for m in b.msgs:
            if m.message_type == WAIT:
                m.time = m.time * mult
        for n in b.notes:
            n.start, n.end = n.start * mult, n.end * mult
    ctx.assume(distinct_keys_or_disjoint(ctx, b.notes))
    return rel_sequence(b.msgs)


# ---- operations: name -> fn(ctx, seq, tag) -> list of sequences
def op_quantise(ctx, s, t):
    s.quantise([6, 4])
    return [s]


def op_qnl(ctx, s, t):
    s.quantise_note_lengths([6, 12])
    return [s]


def op_qnl_noext(ctx, s, t):
    s.quantise_note_lengths([6, 12], do_not_extend=True)
    return [s]


def op_quantise_generated_grid(ctx, s, t):
    # grids built with the documented generator functions (non-default bounds)
    from scoda.misc.util import get_note_durations, get_tuplet_durations
    grid = get_note_durations(2, 2)
    s.quantise(grid + get_tuplet_durations(grid, 3, 2))
    return [s]


def op_quantise_shifted_default_grid(ctx, s, t):
    from scoda.misc.util import get_default_step_sizes
    s.quantise(get_default_step_sizes(upper_bound_shift=1, lower_bound_shift=-1))
    return [s]


def op_qnl_generated_values(ctx, s, t):
    from scoda.misc.util import get_note_durations, get_dotted_note_durations
    vals = get_note_durations(2, 2)
    s.quantise_note_lengths(vals + get_dotted_note_durations(vals, 1))
    return [s]


def op_normalise(ctx, s, t):
    s.normalise()
    return [s]


def op_pad(ctx, s, t):
    s.pad(ctx.int(f"{t}pad", 0, 60))
    return [s]


def op_split(ctx, s, t):
    return s.split([ctx.int(f"{t}cap", 1, 20)])


def op_bar(ctx, s, t):
    ok, b = call(Bar, s, 4, 4)
    return [b.sequence] if ok else []


def op_bar68(ctx, s, t):
    ok, b = call(Bar, s, 6, 8)
    return [b.sequence] if ok else []


def op_bar22(ctx, s, t):
    ok, b = call(Bar, s, 2, 2)
    return [b.sequence, b.copy().sequence] if ok else []


def op_bar32(ctx, s, t):
    ok, b = call(Bar, s, 3, 2)
    return [b.sequence] if ok else []


def op_transpose(ctx, s, t):
    s.transpose(ctx.int(f"{t}n", -3, 3))
    return [s]


def op_cutoff(ctx, s, t):
    m = ctx.int(f"{t}m", 1, 10)
    r = ctx.int(f"{t}r", 1, 10)
    ctx.assume(r <= m)
    s.cutoff(m, r)
    return [s]


def op_scale2(ctx, s, t):
    s.scale(2, quantise_afterwards=False)
    return [s]


def op_scale3(ctx, s, t):
    s.scale(3, quantise_afterwards=False)
    return [s]


def op_refresh(ctx, s, t):
    s.refresh()
    return [Sequence(absolute_sequence=s.abs.copy()), Sequence(relative_sequence=s.rel.copy())]


def op_set_channel(ctx, s, t):
    s.set_channel(ctx.int(f"{t}ch", 0, 3))
    return [s]


def op_copy(ctx, s, t):
    return [s.copy()]


OPS = {"quantise_generated_grid": op_quantise_generated_grid, "quantise_shifted_default_grid": op_quantise_shifted_default_grid,
       "quantise_note_lengths_generated_values": op_qnl_generated_values, "quantise": op_quantise, "quantise_note_lengths": op_qnl, "quantise_note_lengths_noext": op_qnl_noext,
       "normalise": op_normalise, "pad": op_pad, "split": op_split, "bar44": op_bar, "bar68": op_bar68, "bar22": op_bar22, "bar32": op_bar32,
       "transpose": op_transpose, "cutoff": op_cutoff, "scale2": op_scale2, "scale3": op_scale3,
       "refresh": op_refresh, "set_channel": op_set_channel, "copy": op_copy}


def q_single(name, shape, wmax):
    def fn(ctx):
        s = mk(ctx, shape[1], wmax)
        outs = OPS[name](ctx, s, "a")
        bad = [b for o in outs for b in all_int_times(o)]
        ctx.note("non-integer times", bad)
        ctx.must("int_ticks", not bad, disc=name)
        return [obs_rel(raw_rel(o)) for o in outs]
    return Query(f"op/{name}/{shape[0]}/w{wmax}", fn, ["int_ticks"], desc=f"{name} on integer-tick input")


def q_chain(n1, n2, shape, wmax):
    def fn(ctx):
        s = mk(ctx, shape[1], wmax)
        mids = OPS[n1](ctx, s, "a")
        outs = []
        for i, m in enumerate(mids):
            outs.extend(OPS[n2](ctx, m, f"b{i}"))
        bad = [b for o in outs for b in all_int_times(o)]
        ctx.note("non-integer times", bad)
        ctx.must("int_ticks", not bad, disc=f"{n1}>{n2}")
        return [obs_rel(raw_rel(o)) for o in outs]
    return Query(f"chain/{n1}>{n2}/{shape[0]}/w{wmax}", fn, [], desc=f"{n2} after {n1}")


def q_two(name, wmax):
    """operations over two sequences of unequal length"""
    def fn(ctx):
        a = mk(ctx, S1, wmax, prefix="a", pitch=(60, 60), vel=(64, 64))
        b = mk(ctx, S2[:6], wmax, prefix="b", chan=(1, 1), pitch=(62, 62), vel=(64, 64))
        outs = []
        if name == "merge":
            a.merge([b])
            outs = [a]
        elif name == "concatenate":
            a.concatenate([b])
            outs = [a]
        elif name in ("split_bars", "split_bars_noq"):
            bars = Sequence.sequences_split_bars([a, b], 0, quantise_note_lengths=(name == "split_bars"))
            outs = [x.sequence for tr in bars for x in tr]
        elif name == "composition":
            comp = Composition.from_sequences([a, b])
            outs = comp.to_sequences() + comp.copy().to_sequences()
        bad = [x for o in outs for x in all_int_times(o)]
        ctx.note("non-integer times", bad)
        ctx.must("int_ticks", not bad, disc=name)
        return [obs_rel(raw_rel(o)) for o in outs]
    return Query(f"two/{name}/w{wmax}", fn, ["int_ticks"], desc=f"{name} on two sequences of unequal length")


def q_long_bars(wmax):
    """a track spanning two 3/4 bars plus a short one: bars shorter than capacity get padded"""
    def fn(ctx):
        spec = [("TS", 3, 4), ("ON", 0), ("W", 60, 80), ("OFF", 0), ("W", 1, wmax)]
        a = mk(ctx, spec, wmax, prefix="a")
        b = mk(ctx, [("ON", 0), "W", ("OFF", 0)], wmax, prefix="b", chan=(1, 1))
        bars = Sequence.sequences_split_bars([a, b], 0)
        outs = [x.sequence for tr in bars for x in tr]
        comp = Composition.from_sequences([Bar.to_sequence(bars[0]), Bar.to_sequence(bars[1])])
        outs += comp.to_sequences()
        bad = [x for o in outs for x in all_int_times(o)]
        ctx.note("non-integer times", bad)
        ctx.must("int_ticks", not bad, disc="long_bars")
        return [obs_rel(raw_rel(o)) for o in outs]
    return Query(f"two/long_bars/w{wmax}", fn, ["int_ticks"], desc="bar splitting across 3/4 bars, short padded bars, recomposition")


def q_late_signature(wmax):
    """the meta track's first time signature arrives only at the second bar line; notes and rests cross bar lines before it"""
    def fn(ctx):
        a = abs_sequence([ts(3, 4, time=96), on(0, 60, 70, time=ctx.int("s0", 90, 92)), off(0, 60, time=ctx.int("e0", 100, 102)),
                          on(0, 62, 70, time=ctx.int("s1", 160, 161)), off(0, 62, time=180)])
        b = mk(ctx, [("ON", 0), "W", ("OFF", 0)], wmax, prefix="b", chan=(1, 1))
        bars = Sequence.sequences_split_bars([a, b], 0)
        outs = [x.sequence for tr in bars for x in tr]
        comp = Composition.from_sequences([Bar.to_sequence(bars[0]), Bar.to_sequence(bars[1])])
        outs += comp.to_sequences()
        bad = [x for o in outs for x in all_int_times(o)]
        ctx.note("non-integer times", bad)
        ctx.must("int_ticks", not bad, disc="late_signature")
        return [obs_rel(raw_rel(o)) for o in outs]
    return Query(f"two/late_signature/w{wmax}", fn, ["int_ticks"], desc="first time signature only at the second bar line")


def q_unclosed_note(wmax):
    """a track whose last note is never closed, handed straight to bar splitting in 6/8 (the closing note-off is imputed)"""
    def fn(ctx):
        a = abs_sequence([ts(6, 8, time=0), on(0, 60, 70, time=ctx.int("s0", 0, 30)), off(0, 60, time=ctx.int("e0", 31, 40)),
                          on(0, 62, 70, time=ctx.int("s1", 72, 72 + wmax))])
        b = mk(ctx, [("ON", 0), "W", ("OFF", 0)], wmax, prefix="b", chan=(1, 1))
        bars = Sequence.sequences_split_bars([a, b], 0)
        outs = [x.sequence for tr in bars for x in tr]
        comp = Composition.from_sequences([Bar.to_sequence(bars[0]), Bar.to_sequence(bars[1])])
        outs += comp.to_sequences()
        bad = [x for o in outs for x in all_int_times(o)]
        ctx.note("non-integer times", bad)
        ctx.must("int_ticks", not bad, disc="unclosed_note")
        return [obs_rel(raw_rel(o)) for o in outs]
    return Query(f"two/unclosed_note_68/w{wmax}", fn, ["int_ticks"], desc="unclosed last note through bar splitting in 6/8")


def q_tokenise(flags, bins, ppqn=None):
    def fn(ctx):
        tok = Tokeniser(ppqn=ppqn, num_tracks=2, velocity_bins=bins, flag_running_values=flags[0], flag_fuse_track=flags[1],
                        flag_fuse_value=flags[2], flag_fuse_velocity=flags[3])
        a = mk(ctx, S1, 3, prefix="a", mult=12, pitch=(60, 60), vel=(96, 97))
        b = mk(ctx, ["W", ("ON", 0), "W", ("OFF", 0)], 3, prefix="b", mult=12, chan=(1, 1), pitch=(62, 62), vel=(96, 97))
        badvoc = [k for k in tok.dictionary for p in k.split("-") if TOKEN_RE.match(p) and not TOKEN_RE.match(p).group(2).isdigit()]
        ctx.must("int_vocabulary", not badvoc)
        ok, tokens = call(tok.tokenise, [a, b])
        if not ok:
            ctx.must("tokenise_accepts_grid_input", False, disc=type(tokens).__name__)
            return ["raised"]
        badtok = [t for t in tokens for p in t.split("-") if TOKEN_RE.match(p) and not TOKEN_RE.match(p).group(2).isdigit()]
        ctx.note("non-integer tokens", badtok)
        ctx.must("int_tokens", not badtok)
        seqs = tok.detokenise(tokens)
        bad = [x for o in seqs for x in all_int_times(o)]
        ctx.must("int_ticks", not bad, disc="detokenise")
        return [tokens]
    return Query(f"tokenise/flags{''.join(str(int(f)) for f in flags)}/bins{bins}{'/ppqn' + str(ppqn) if ppqn else ''}", fn, ["int_tokens", "int_ticks"],
                 desc="tokenise + detokenise")


SEQ2SEQ = ["quantise", "quantise_note_lengths", "normalise", "pad", "split", "bar44", "transpose", "cutoff", "scale2",
           "refresh", "copy"]


def queries(tier, seed):
    qs = []
    wmax = 8 if tier == "quick" else 12
    for name in OPS:
        if "generated" in name or "shifted" in name:
            qs.append(q_single(name, ("s0", S0), 40))
        else:
            qs.append(q_single(name, ("s1", S1), wmax))
        if name in ("quantise", "split", "bar44", "cutoff", "pad"):
            qs.append(q_single(name, ("s2", S2), 4 if tier == "quick" else 6))
    for name in ("merge", "concatenate", "split_bars", "split_bars_noq", "composition"):
        qs.append(q_two(name, 3 if tier == "quick" else 4))
    qs.append(q_long_bars(6))
    qs.append(q_late_signature(6))
    qs.append(q_tokenise((True, True, True, True), 1))
    qs.append(q_tokenise((False, False, False, False), 2))
    qs.append(q_tokenise((True, True, True, True), 1, ppqn=24))       # the resolution passed explicitly, grids left at their defaults
    qs.append(q_unclosed_note(6))
    if tier == "thorough":
        qs.append(q_tokenise((True, False, True, False), 5))
        qs.append(q_tokenise((False, True, False, True), 8))
        for n1 in SEQ2SEQ:
            for n2 in SEQ2SEQ:
                if n1 in ("copy", "refresh") and n2 in ("copy", "refresh"):
                    continue
                qs.append(q_chain(n1, n2, ("s1", S1), 4))
    return qs
