"""C19 Token annotations agree with the detokenised timeline."""
import collections
import itertools
import math

from symx.run import Query
from symx.lib import *  # noqa
from scoda.tokenisation.notelike_tokenisation import MultiTrackLargeVocabularyNotelikeTokeniser as Tokeniser
from props.c01 import FLAGS, PLANS, Piece, bar_lines

META = {
    "bounds": {
        "quick": "arbitrary streams: every stream of length <=3 over the whole vocabulary (symbolic ids, solver-driven enumeration) of a "
                 "reduced configuration (pitch 60..61, note values [12,24], all rests / signatures / special tokens) fused and unfused; "
                 "typed stream families of length 6-8 (overfilled bars, signature tokens mid-bar, partly filled bars, unfused running "
                 "values, ppqn 48) with each position symbolic inside its token class; tokenise-produced streams from 2-note pieces over "
                 "4 signature plans; with and without value imputation",
        "thorough": "as quick with every stream of length 3 under 6 flag combinations incl. 2 tracks (31^4 streams of length 4 exceed the path budget)",
    },
    "outside_claim": ["arbitrary streams longer than 4 tokens outside the typed families", "pitch ranges beyond 2 pitches in the exhaustive part"],
    "stubs": ["np.digitize ite-sum", "int()/float() shadowed", "logging disabled"],
}


def fifths_position(pitch):
    p = (7 * (pitch % 12)) % 12
    return p - 12 if p > 6 else p


def on_events(seqs):
    c = collections.Counter()
    for ti, s in enumerate(seqs):
        for m in raw_abs(s):
            if m.message_type == ON:
                c[(ti, m.note, m.time)] += 1
    return c


def check_stream(ctx, tok, stream, tag):
    bad = []
    for impute in (False, True):
        ok, info = call(tok.get_info, stream, flag_impute_values=impute)
        if not ok:
            bad.append(f"get_info raised {type(info).__name__}")
            continue
        keys = ["info_position", "info_time", "info_time_bar", "info_pitch", "info_circle_of_fifths"]
        if sorted(info) != sorted(keys) or any(len(info[k]) != len(stream) for k in keys):
            bad.append("annotation lists do not have one entry per token")
            continue
        if info["info_position"] != list(range(len(stream))):
            bad.append("positions are not 0,1,2,...")
        prev = on_events(tok.detokenise([]))
        for j, t in enumerate(stream):
            cur = on_events(tok.detokenise(stream[:j + 1]))
            new = cur - prev
            prev = cur
            is_note = any(p.startswith("pit_") for p in t.split("-"))
            if not is_note:
                if sum(new.values()) != 0:
                    bad.append(f"token {j} ({t}) is not a note token but adds a note")
                if not impute and not (isinstance(info["info_pitch"][j], float) and math.isnan(info["info_pitch"][j])):
                    bad.append(f"token {j} ({t}) carries a pitch annotation without imputation")
                continue
            if sum(new.values()) != 1:
                bad.append(f"note token {j} ({t}) adds {sum(new.values())} notes")
                continue
            (tr, pitch, onset), = new.keys()
            if info["info_time"][j] != onset:
                bad.append(f"note token {j} ({t}): annotated time {info['info_time'][j]} but detokenise places it at {onset}")
            if info["info_pitch"][j] != pitch:
                bad.append(f"note token {j} ({t}): annotated pitch {info['info_pitch'][j]} but note has {pitch}")
            if info["info_circle_of_fifths"][j] != fifths_position(pitch):
                bad.append(f"note token {j} ({t}): fifths position {info['info_circle_of_fifths'][j]} != {fifths_position(pitch)}")
    ctx.note("problems", bad[:6])
    ctx.must("annotations_agree_with_detokenise", not bad, disc=tag)


def mk(fl, ntr=1, ppqn=None):
    return Tokeniser(ppqn=ppqn, num_tracks=ntr, pitch_range=(60, 61), note_values=[12, 24], velocity_bins=1,
                     flag_running_values=fl[0], flag_fuse_track=fl[1], flag_fuse_value=fl[2], flag_fuse_velocity=fl[3])


def q_all_streams(fl, length, ntr=1):
    def fn(ctx):
        tok = mk(fl, ntr)
        size = tok.dictionary_size
        ids = [ctx.int(f"id{i}", 0, size - 1) for i in range(length)]
        stream = tok.decode(ids)
        check_stream(ctx, tok, stream, "arbitrary")
        return [stream]
    return Query(f"all/len{length}/f{''.join(str(int(x)) for x in fl)}-t{ntr}", fn, ["annotations_agree_with_detokenise"],
                 desc=f"every vocabulary stream of length {length}", max_paths=400000)


def classes(tok):
    d = list(tok.dictionary)
    return {
        "R": [t for t in d if t.startswith("rst_")],
        "Rbig": [t for t in d if t in ("rst_24", "rst_16", "rst_12")],
        "T": [t for t in d if t in ("tsg_03_08", "tsg_05_08", "tsg_06_08", "tsg_12_08")],
        "Tall": [t for t in d if t.startswith("tsg_")],
        "N": [t for t in d if "pit_" in t],
        "B": ["bar"],
        "S": ["pad", "sta", "sto", "bar"],
        "U": [t for t in d if t.startswith(("trk_", "val_", "vel_"))] or ["pad"],
    }


FAMILIES = {
    "overfull_bar": ["Rbig", "Rbig", "Rbig", "Rbig", "Rbig", "B", "N", "Rbig", "N"],
    "sig_mid_bar": ["Tall", "Rbig", "T", "N", "B", "T", "N"],
    "partly_filled": ["N", "B", "R", "N", "B", "B", "N"],
    "specials": ["S", "N", "S", "R", "S", "N"],
    "unfused": ["U", "U", "N", "Rbig", "U", "N", "B", "N"],
    "sig_then_bars": ["T", "Rbig", "B", "N", "Rbig", "Rbig", "B", "N"],
    "sig_after_note": ["N", "T", "Rbig", "B", "N", "T", "B", "N"],
    "note_bar_sig": ["B", "N", "N", "T", "B", "N"],
}


def q_family(fam, fl, ntr=1, ppqn=None):
    def fn(ctx):
        tok = mk(fl, ntr, ppqn)
        cl = classes(tok)
        stream = []
        for i, c in enumerate(FAMILIES[fam]):
            opts = cl[c]
            k = ctx.int(f"c{i}", 0, len(opts) - 1) if len(opts) > 1 else 0
            stream.append(opts[k])
        check_stream(ctx, tok, stream, fam)
        return [stream]
    return Query(f"family/{fam}/f{''.join(str(int(x)) for x in fl)}-t{ntr}-ppqn{ppqn}", fn,
                 ["annotations_agree_with_detokenise"], desc=f"typed stream family {fam}", max_paths=400000)


def q_produced(fl, plan, bins=1, grid=None):
    """grid: the plan whose bar lines the stream has when `plan` holds a signature that tokenise cannot honour (mid-bar)"""
    def fn(ctx):
        tok = Tokeniser(num_tracks=2, pitch_range=(60, 62), velocity_bins=bins, flag_running_values=fl[0], flag_fuse_track=fl[1],
                        flag_fuse_value=fl[2], flag_fuse_velocity=fl[3])
        p = Piece(2, plan)
        k = ctx.int("k", 0, 40)
        vals = [12, 24, 36]
        p.add(0, 60, 4 * k, vals[ctx.int("i1", 0, 2)], ctx.int("v1", 1, 127))
        p.add(1, 61, 4 * k + 6 * ctx.int("g", 0, 20), 12, 64)
        tokens = tok.tokenise(p.sequences())
        check_stream(ctx, tok, tokens, "produced")
        info = tok.get_info(tokens)
        times = info["info_time"]
        ctx.must("annotated_times_never_decrease", all(a <= b for a, b in zip(times, times[1:])))
        lines = [0] + bar_lines(grid or plan, max(times + [0]))
        bad = []
        for j, t in enumerate(tokens):
            if "pit_" in t:
                start = max(b for b in lines if b <= times[j])
                if info["info_time_bar"][j] != times[j] - start:
                    bad.append((j, t, info["info_time_bar"][j], times[j] - start))
        ctx.note("in_bar_time_problems", bad[:4])
        ctx.must("in_bar_time_is_onset_minus_bar_start", not bad)
        return [tokens]
    return Query(f"produced/{plan}/f{''.join(str(int(x)) for x in fl)}-b{bins}", fn,
                 ["annotations_agree_with_detokenise", "annotated_times_never_decrease", "in_bar_time_is_onset_minus_bar_start"],
                 desc="streams produced by tokenise from 2-note pieces")


def queries(tier, seed):
    qs = []
    qs.append(q_all_streams(FLAGS[0], 3))
    qs.append(q_all_streams(FLAGS[15], 3))
    qs.append(q_all_streams(FLAGS[7], 2))
    if tier == "thorough":
        qs.append(q_all_streams(FLAGS[0], 3, ntr=2))
        qs.append(q_all_streams(FLAGS[8], 3))
        qs.append(q_all_streams(FLAGS[7], 3))
        qs.append(q_all_streams(FLAGS[3], 3))
    for fam in FAMILIES:
        qs.append(q_family(fam, FLAGS[0]))
        qs.append(q_family(fam, FLAGS[15]))
    qs.append(q_family("sig_then_bars", FLAGS[0], ppqn=48))
    qs.append(q_family("overfull_bar", FLAGS[5], ntr=2))
    for plan in ("none", "34-58", "68-24", "38"):
        qs.append(q_produced(FLAGS[0], plan))
    qs.append(q_produced(FLAGS[15], "44-34", bins=2))
    qs.append(q_produced(FLAGS[0], "midbar-44-68", grid="none"))      # a signature event inside a bar is skipped by every stage
    return qs
