"""C18 pad / cutoff / integer scale / set_channel do exactly what they say."""
from symx.run import Query
from symx.lib import *  # noqa

META = {
    "bounds": {
        "quick": "shapes of <=2 notes (+TS/KS, also signatures that repeat the one in force and adjacent waits), waits 1..24, pad n 0..120, cutoff m 1..40 r 0..m, scale k in 1..8 (concrete) and k symbolic 2..8 (non-linear), channel 0..15",
        "thorough": "shapes of <=3 notes (+TS/KS), waits 1..32, pad n 0..200, cutoff m 1..64, scale k 1..8, channel 0..15",
    },
    "outside_claim": ["more than 3 notes", "scale with quantise_afterwards=True (a different contract)",
                      "scale factors < 1", "ill-formed sequences"],
    "stubs": ["int() shadowed in scoda modules (identity on SymInt)", "logging disabled"],
}

SHAPES = {
    "n1t": [("ON", 0), "W", ("OFF", 0), "W"],
    "n1": ["W", ("ON", 0), "W", ("OFF", 0)],
    "n2ov": ["W", ("ON", 0), "W", ("ON", 1), "W", ("OFF", 0), "W", ("OFF", 1)],
    "n2seq": [("ON", 0), "W", ("OFF", 0), ("ON", 1), "W", ("OFF", 1), "W"],
    "n2sig": [("TS", 3, 4), ("KS", KEYS[1]), ("ON", 0), "W", ("OFF", 0), "W", ("TS", 4, 4), ("ON", 1), "W", ("OFF", 1)],
    "n2rep": [("TS", 4, 4), ("KS", KEYS[6]), ("ON", 0), "W", ("OFF", 0), "W", ("TS", 4, 4), ("ON", 1), "W", ("OFF", 1),
              ("KS", KEYS[6]), "W", "W"],
    "n3": [("ON", 0), "W", ("ON", 1), "W", ("OFF", 0), ("ON", 2), "W", ("OFF", 1), "W", ("OFF", 2), "W"],
}


def _wf(ctx, b):
    ctx.assume(distinct_keys_or_disjoint(ctx, b.notes))


def _views(seq):
    er, dr = rel_events(raw_rel(seq))
    ea, da = abs_events(raw_abs(seq))
    return er, dr, ea, da


def _exp_events(b, f=lambda t: t):
    return [Ev(f(e.t), e.m) for e in b.all_events]


def q_pad(shape, wmax, nmax, fresh):
    def fn(ctx):
        b = build_rel(ctx, SHAPES[shape], pitch=(60, 61), chan=(0, 1), wait=(1, wmax))
        _wf(ctx, b)
        n = ctx.int("n", 0, nmax)
        exp = [Ev(e.t, e.m.copy()) for e in b.all_events]
        seq = rel_sequence(b.msgs)
        if fresh == "abs":
            seq = Sequence(absolute_sequence=seq.abs)
        elif fresh == "both":
            seq.get_sequence_duration()      # both views exist before the call
        elif fresh == "padded_both":
            seq.pad(b.total + 3)             # already ends in an added rest; both views exist
            seq.get_sequence_duration()
            n = n + b.total + 3
            b.total = b.total + 3
        seq.pad(n)
        er, dr, ea, da = _views(seq)
        ctx.must("pad_events_rel", events_eq_positionwise(er, exp) if fresh != "abs" else events_eq_multiset_timed(er, exp))
        ctx.must("pad_events_abs", events_eq_multiset_timed(ea, exp))
        want = ite(n > b.total, n, b.total)
        ctx.must("pad_duration_rel", eq(dr, want))
        ctx.must("pad_duration_abs", eq(da, want))
        return [obs_events(er, dr), obs_events(ea, da)]
    return Query(f"pad/{shape}/{fresh}/w{wmax}n{nmax}", fn,
                 ["pad_events_rel", "pad_events_abs", "pad_duration_rel", "pad_duration_abs"],
                 desc=f"pad(n) on shape {shape}, starting {fresh}-fresh")


def q_cutoff(shape, wmax, mmax, late_first=False):
    def fn(ctx):
        b = build_rel(ctx, SHAPES[shape], pitch=(60, 61), chan=(0, 1), wait=(1, wmax))
        _wf(ctx, b)
        m = ctx.int("m", 1, mmax)
        r = ctx.int("r", 1, mmax)
        ctx.assume(r <= m)
        seq = rel_sequence(b.msgs)
        if late_first:
            # the same music entered through the absolute interface with the later note first: a re-strike on the tick
            # where the previous note of its key ends stands in front of that note-off in the message list
            ms = []
            for n in reversed(b.notes):
                ms.append(on(n.ch, n.pitch, n.vel, time=n.start))
                ms.append(off(n.ch, n.pitch, time=n.end))
            for e in b.events:
                m_ = e.m.copy()
                m_.time = e.t
                ms.append(m_)
            seq = abs_sequence(ms)
        seq.cutoff(m, r)
        ea, da = abs_events(raw_abs(seq))
        er, dr = rel_events(raw_rel(seq))
        got, unp = pair_notes(ea)
        gotr, unpr = pair_notes(er)
        exp = [NoteV(n.ch, n.pitch, n.start, ite(n.end - n.start > m, n.start + r, n.end), n.vel) for n in b.notes]
        ctx.must("cutoff_paired", unp == 0 and unpr == 0)
        ctx.must("cutoff_notes_abs", multiset_eq([n.tup() for n in got], [n.tup() for n in exp]))
        ctx.must("cutoff_notes_rel", multiset_eq([n.tup() for n in gotr], [n.tup() for n in exp]))
        other = [e for e in ea if e.kind not in (ON, OFF)]
        ctx.must("cutoff_other_events", events_eq_multiset_timed(other, b.events))
        return [obs_events(ea, da), obs_events(er, dr)]
    return Query(f"cutoff/{shape}/w{wmax}m{mmax}{'/late-first' if late_first else ''}", fn,
                 ["cutoff_paired", "cutoff_notes_abs", "cutoff_notes_rel", "cutoff_other_events"],
                 desc=f"cutoff(m, r<=m) on shape {shape}")


def q_scale(shape, wmax, k, with_meta=False):
    def fn(ctx):
        b = build_rel(ctx, SHAPES[shape], pitch=(60, 61), chan=(0, 1), wait=(1, wmax))
        _wf(ctx, b)
        exp = [Ev(e.t * k, e.m.copy()) for e in b.all_events]
        seq = rel_sequence(b.msgs)
        if with_meta:
            # a meta sequence only matters for down-scaling; integer up-scaling must not change because one is passed
            seq.scale(k, meta_sequence=rel_sequence([ts(3, 4), wait(200)]), quantise_afterwards=False)
        else:
            seq.scale(k, quantise_afterwards=False)
        er, dr, ea, da = _views(seq)
        ctx.must("scale_events_rel", events_eq_positionwise(er, exp))
        ctx.must("scale_events_abs", events_eq_multiset_timed(ea, exp))
        ctx.must("scale_duration", and_(eq(dr, b.total * k), eq(da, b.total * k)))
        ctx.must("scale_int_ticks", all(is_int(e.t) for e in er + ea))
        return [obs_events(er, dr), obs_events(ea, da)]
    return Query(f"scale/{shape}/w{wmax}k{k}{'/meta' if with_meta else ''}", fn,
                 ["scale_events_rel", "scale_events_abs", "scale_duration", "scale_int_ticks"],
                 desc=f"scale({k}, quantise_afterwards=False) on shape {shape}")


def q_scale_symbolic(shape, wmax, kmax):
    """the scale factor itself symbolic (non-linear integer arithmetic: sym x sym)"""
    def fn(ctx):
        b = build_rel(ctx, SHAPES[shape], pitch=(60, 61), chan=(0, 1), wait=(1, wmax))
        _wf(ctx, b)
        k = ctx.int("k", 2, kmax)    # k = 1 takes the 1/factor branch (division by a symbolic value); covered by the concrete split
        exp = [Ev(e.t * k, e.m.copy()) for e in b.all_events]
        seq = rel_sequence(b.msgs)
        seq.scale(k, quantise_afterwards=False)
        er, dr, ea, da = _views(seq)
        ctx.must("scale_events_rel", events_eq_positionwise(er, exp))
        ctx.must("scale_events_abs", events_eq_multiset_timed(ea, exp))
        ctx.must("scale_duration", and_(eq(dr, b.total * k), eq(da, b.total * k)))
        return [obs_events(er, dr), obs_events(ea, da)]
    return Query(f"scale_symbolic/{shape}/w{wmax}k2..{kmax}", fn, ["scale_events_rel", "scale_events_abs", "scale_duration"],
                 desc=f"scale(k) with symbolic k on shape {shape}")


def q_set_channel(shape, wmax, fresh):
    def fn(ctx):
        b = build_rel(ctx, SHAPES[shape], pitch=(60, 61), chan=(0, 1), wait=(1, wmax))
        _wf(ctx, b)
        c = ctx.int("newch", 0, 15)
        exp = []
        for e in b.all_events:
            m = e.m.copy()
            m.channel = c
            exp.append(Ev(e.t, m))
        seq = rel_sequence(b.msgs)
        if fresh == "abs":
            seq = Sequence(absolute_sequence=seq.abs)
        seq.set_channel(c)
        er, dr, ea, da = _views(seq)
        ctx.must("setch_events_rel", events_eq_positionwise(er, exp) if fresh == "rel" else events_eq_multiset_timed(er, exp))
        ctx.must("setch_events_abs", events_eq_multiset_timed(ea, exp))
        ctx.must("setch_all_channels", and_([eq(m.channel, c) for m in raw_rel(seq) + raw_abs(seq)]))
        ctx.must("setch_duration", and_(eq(dr, b.total), eq(da, b.total)))
        return [obs_events(er, dr), obs_events(ea, da)]
    return Query(f"set_channel/{shape}/{fresh}/w{wmax}", fn,
                 ["setch_events_rel", "setch_events_abs", "setch_all_channels", "setch_duration"],
                 desc=f"set_channel(c) on shape {shape}, starting {fresh}-fresh")


def queries(tier, seed):
    qs = []
    if tier == "quick":
        shapes = ["n1t", "n1", "n2ov", "n2seq", "n2sig", "n2rep"]
        wmax, nmax, mmax = 24, 120, 40
    else:
        shapes = list(SHAPES)
        wmax, nmax, mmax = 32, 200, 64
    for s in shapes:
        for fresh in ("rel", "abs"):
            qs.append(q_pad(s, wmax, nmax, fresh))
            qs.append(q_set_channel(s, wmax, fresh))
        if s in ("n1t", "n2ov", "n2rep"):
            qs.append(q_pad(s, wmax, nmax, "both"))
            qs.append(q_pad(s, wmax, nmax, "padded_both"))
        qs.append(q_cutoff(s, wmax, mmax))
        for k in range(1, 9):
            if tier == "quick" and k not in (1, 2, 3, 8) and s not in ("n2ov",):
                continue
            qs.append(q_scale(s, wmax, k))
    qs.append(q_cutoff("n2seq", wmax, mmax, late_first=True))
    qs.append(q_cutoff("n2sig", 12, 20, late_first=True))
    for s in (("n1t", "n2ov") if tier == "quick" else ("n1t", "n2ov", "n2rep", "n3")):
        qs.append(q_scale_symbolic(s, 12, 8))
        qs.append(q_scale(s, wmax, 2, with_meta=True))
        qs.append(q_scale(s, wmax, 3, with_meta=True))
    return qs
