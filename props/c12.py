"""C12 Saving to MIDI and loading back returns the same music."""
import os
import tempfile

from symx.run import Query
from symx.lib import *  # noqa
import scoda.midi.midi_file as midi_file_mod

META = {
    "bounds": {
        "quick": "1-3 saved sequences of <=2 notes (pitch 60..61, velocity 1..127, waits 0/1..40 incl. leading rests and simultaneous "
                 "events); time / key signatures on one sequence at symbolic ticks (signature values concrete: 3/4, 6/8, 5/4; keys "
                 "rotate with VERIF_SEED, all 15 in thorough); probe tick symbolic",
        "thorough": "as quick with all 15 keys, signatures on the second sequence, 3 sequences of 2 notes",
    },
    "outside_claim": ["byte-level MIDI serialisation inside mido (exercised only by the per-path concrete replay through a real file)",
                      "control / program changes", "signatures on several saved sequences that disagree", "trailing-rest duration"],
    "stubs": ["mido.MidiFile save / load replaced by an in-memory hand-over of the mido track objects while a symbolic path runs "
              "(mido.Message / MetaMessage constructors and their range checks run for real on the symbolic values); every path's model "
              "is replayed through the real file on disk by the concrete cross-validation",
              "int() shadowed", "logging disabled"],
}


class _FakeMido:
    """stands in for the `mido` module inside scoda.midi.midi_file while a symbolic path runs"""
    store = {}

    def __init__(self, real):
        self._real = real

    def __getattr__(self, name):
        return getattr(self._real, name)

    def MidiFile(self, filename=None, **kw):  # noqa: N802
        real = self._real
        outer = self

        class F:
            def __init__(self):
                self.tracks = []
                self.ticks_per_beat = 480
                self.type = 1

            def save(self, path):
                outer.store[str(path)] = ([list(t) for t in self.tracks], self.ticks_per_beat)

        f = F()
        if filename is not None:
            tracks, tpb = outer.store[str(filename)]
            f.ticks_per_beat = tpb
            for t in tracks:
                tr = real.MidiTrack()
                tr.extend(t)
                if not t or t[-1].type != "end_of_track":
                    tr.append(real.MetaMessage("end_of_track", time=0))
                f.tracks.append(tr)
        return f


def setup(ctl):
    fake = _FakeMido(midi_file_mod.mido)

    def on():
        real = midi_file_mod.mido
        midi_file_mod.mido = fake
        return lambda: setattr(midi_file_mod, "mido", real)
    ctl.extra_on.append(on)


SEQS = {
    "n1": [("W", 0, 40), ("ON", 0), "W", ("OFF", 0), ("W", 0, 40)],
    "n2": [("W", 0, 40), ("ON", 0), ("W", 0, 40), ("ON", 1), "W", ("OFF", 0), ("W", 0, 40), ("OFF", 1)],
    "n2sim": [("ON", 0), ("ON", 1), "W", ("OFF", 0), ("OFF", 1)],
    "rest": ["W"],
    "ww": ["W", "W", ("ON", 0), "W", ("PC", 4), "W", ("OFF", 0), "W", "W", ("KSX",), ("ON", 1), "W", ("OFF", 1)],
    "sigonly": [("TS", 3, 4), "W", ("KSX",), "W"],
    "sig": [("TS", 3, 4), ("ON", 0), "W", ("KSX",), ("W", 0, 40), ("OFF", 0), ("TS", 6, 8), "W", ("ON", 1), "W", ("TS", 5, 4), ("OFF", 1)],
    "siglate": [("W", 1, 40), ("TS", 6, 8), ("ON", 0), "W", ("OFF", 0), ("KSX",), "W"],
}


def q_saveload(name, shapes, key, wmax):
    def fn(ctx):
        bs = []
        for i, sh in enumerate(shapes):
            spec = [("KS", KEYS[key]) if el == ("KSX",) else el for el in SEQS[sh]]
            spec = [("W", el[1], min(el[2], wmax)) if isinstance(el, tuple) and el[0] == "W" else el for el in spec]
            b = build_rel(ctx, spec, pitch=(60, 61), chan=(0, 0), wait=(1, wmax), prefix=f"s{i}")
            ctx.assume(distinct_keys_or_disjoint(ctx, b.notes))
            bs.append(b)
        tau = ctx.int("tau", 0, wmax * 8)
        seqs = [rel_sequence([m.copy() for m in b.msgs]) for b in bs]
        fd, path = tempfile.mkstemp(suffix=".mid", prefix="scoda-c12-")
        os.close(fd)
        try:
            Sequence.sequences_save(seqs, path)
            loaded = Sequence.sequences_load(path)
        finally:
            if os.path.exists(path):
                os.unlink(path)
            _FakeMido.store.pop(path, None)
        ctx.must("one_sequence_per_saved", len(loaded) == len(seqs))
        if len(loaded) != len(seqs):
            return ["count", len(loaded)]
        ok = []
        for b, ld in zip(bs, loaded):
            ea, da = abs_events(raw_abs(ld))
            got, unp = pair_notes(ea)
            ok.append(and_(multiset_eq([n.tup(channel=False) for n in got], [n.tup(channel=False) for n in b.notes]), unp == 0))
        ctx.must("notes_identical_in_order", and_(ok))
        saved_sig = [e for b in bs for e in b.events]
        em, dm = abs_events(raw_abs(loaded[0]))
        # the loaded meta sequence itself carries the signature in force (nothing is assumed for it: the 4/4 that holds
        # where the file specifies nothing is an event of the loaded sequence)
        ctx.must("time_signature_in_force", and_([eq(x, y) for x, y in zip(in_force(em, TS, tau, (0, 0)),
                                                                               in_force(saved_sig, TS, tau, (4, 4)))]))
        ctx.must("key_signature_in_force", and_([eq(x, y) for x, y in zip(in_force(em, KS, tau, (-1,)),
                                                                              in_force(saved_sig, KS, tau, (-1,)))]))
        ctx.must("integer_ticks", all(is_int(m.time) for ld in loaded for m in raw_abs(ld)))
        return [obs_abs(raw_abs(ld)) for ld in loaded]
    return Query(f"{name}/key{key}/w{wmax}", fn,
                 ["one_sequence_per_saved", "notes_identical_in_order", "time_signature_in_force", "key_signature_in_force",
                  "integer_ticks"], desc=f"save+load of sequences {shapes} with key {KEYS[key].value}")


def queries(tier, seed):
    qs = []
    keys = range(15) if tier == "thorough" else sorted({seed % 15, (seed + 7) % 15, 14})
    w = 40
    qs.append(q_saveload("one", ["n1"], 0, w))
    qs.append(q_saveload("one2", ["n2"], 0, 20))
    qs.append(q_saveload("two", ["n1", "n2sim"], 0, 20))
    qs.append(q_saveload("three", ["n1", "n1", "n1"], 0, 12))
    qs.append(q_saveload("noteless_middle", ["n1", "rest", "n1"], 0, 12))
    qs.append(q_saveload("adjacent_waits", ["ww"], 13, 12))
    qs.append(q_saveload("1+sig", ["n1", "sig"], (seed + 2) % 15, 8))
    qs.append(q_saveload("sigonly_first", ["sigonly", "n1"], 13, 12))
    for k in keys:
        qs.append(q_saveload("sig", ["sig"], k, 12))
        qs.append(q_saveload("siglate+1", ["siglate", "n1"], k, 20))
    if tier == "thorough":
        qs.append(q_saveload("1+sig", ["n1", "sig"], 3, 10))
        qs.append(q_saveload("three2", ["n2", "n2sim", "n1"], 0, 10))
        qs.append(q_saveload("one_wide", ["n2"], 0, 40))
        qs.append(q_saveload("sig+sim", ["sig", "n2sim"], 9, 10))
    return qs
