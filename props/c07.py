"""C07 Normalise returns a well-formed sequence with the same duration and sound."""
import itertools

from symx.run import Query
from symx.lib import *  # noqa

META = {
    "bounds": {
        "quick": "every relative message sequence of length <=4 over {ON, OFF, WAIT, TS, KS} (780 shapes) plus 14 targeted shapes of "
                 "length 5-7; pitch in {0,1} (so pitch == channel number is reachable), channel 0 (all shapes) / {0,1} (targeted shapes and all shapes of length <= 3 with two note messages), "
                 "waits 1..32, note-on velocity 0..127, TS numerator in {3,4} over 4, key in 2 keys, probe tick symbolic",
        "thorough": "every sequence of length <=5 (3905 shapes), channel {0,1} up to length 4, plus the targeted shapes",
    },
    "outside_claim": ["sequences longer than 5 messages apart from the targeted shapes", "more than 2 pitches x 2 channels",
                      "control / program change messages"],
    "stubs": ["int() shadowed in scoda modules (identity on SymInt)", "logging disabled"],
}

KINDS = ["ON", "OFF", "W", "TS", "KS"]
TARGETED = [
    ["ON", "ON", "W", "OFF", "W", "OFF", "W"],          # nested / overlapping
    ["ON", "W", "ON", "W", "OFF", "W", "OFF"],
    ["ON", "W", "OFF", "ON", "W", "OFF", "W"],          # abutting
    ["ON", "W", "ON", "W", "OFF", "W"],                 # re-trigger then one close
    ["OFF", "W", "ON", "W", "OFF", "W"],                # orphan first
    ["ON", "W", "OFF", "W", "OFF", "W"],                # double close
    ["ON", "W", "OFF", "W", "ON", "W"],                 # unclosed at the end
    ["TS", "ON", "W", "TS", "OFF", "W", "TS"],
    ["KS", "W", "KS", "ON", "W", "OFF", "KS"],
    ["TS", "KS", "W", "TS", "KS", "W"],
    ["W", "W", "ON", "W", "W", "OFF", "W"],
    ["ON", "ON", "ON", "W", "OFF", "OFF", "OFF"],
    ["ON", "OFF", "ON", "OFF", "W"],                    # zero-length notes
    ["W", "ON", "W", "OFF", "W", "W"],
]


def build(ctx, shape, chans):
    msgs = []
    for i, k in enumerate(shape):
        if k == "W":
            msgs.append(wait(ctx.int(f"w{i}", 1, 32)))
        elif k in ("ON", "OFF"):
            p = ctx.int(f"p{i}", 0, 1)
            c = 0 if chans == 1 else ctx.int(f"c{i}", 0, chans - 1)
            msgs.append(on(c, p, ctx.int(f"v{i}", 0, 127)) if k == "ON" else off(c, p))
        elif k == "TS":
            msgs.append(ts(ctx.int(f"num{i}", 3, 4), 4))
        else:
            msgs.append(ks(KEYS[ctx.int(f"key{i}", 0, 1)]))
    return msgs


def balance_ok(evs):
    """input already paired: per (c,p) every prefix balance >= 0 and the final balance == 0"""
    cs = []
    note_evs = [e for e in evs if e.kind in (ON, OFF)]
    for i, e in enumerate(note_evs):
        if e.kind == OFF:
            bal = sum_([ite(and_(eq(f.m.channel, e.m.channel), eq(f.m.note, e.m.note)), 1 if f.kind == ON else -1, 0)
                        for f in note_evs[:i + 1]])
            cs.append(bal >= 0)
    for e in note_evs:
        bal = sum_([ite(and_(eq(f.m.channel, e.m.channel), eq(f.m.note, e.m.note)), 1 if f.kind == ON else -1, 0)
                    for f in note_evs])
        cs.append(eq(bal, 0))
    return and_(cs)


def no_repeated_signature(evs):
    cs = []
    last_ts = None
    last_ks = None
    for e in evs:
        if e.kind == TS:
            if last_ts is not None:
                cs.append(not_(and_(eq(e.m.numerator, last_ts.m.numerator), eq(e.m.denominator, last_ts.m.denominator))))
            last_ts = e
        elif e.kind == KS:
            if last_ks is not None:
                cs.append(e.m.key != last_ks.m.key)
            last_ks = e
    return and_(cs)


def q_shape(shape, chans):
    name = "".join({"ON": "N", "OFF": "F", "W": "w", "TS": "T", "KS": "K"}[k] for k in shape)

    def fn(ctx):
        msgs = build(ctx, shape, chans)
        in_evs, total = rel_events([m.copy() for m in msgs])
        tau = ctx.int("tau", 0, 32 * len(shape) + 1)
        seq = rel_sequence(msgs)
        seq.normalise()
        out = raw_rel(seq)
        er, dr = rel_events(out)
        first = [m.copy() for m in out]
        ctx.must("alternation", wellformed_alternation(er))
        ctx.must("no_repeated_signature", no_repeated_signature(er))
        ctx.must("duration_unchanged", eq(dr, total))
        paired = balance_ok(in_evs)
        ctx.must("sound_unchanged_if_paired", implies(paired, roll_equal(in_evs, er, tau, keys=keys_of(in_evs))))
        ctx.must("only_input_events", and_([or_([and_(eq(o.t, i.t), msg_eq(o.m, i.m)) for i in in_evs]) for o in er]))
        seq.normalise()
        out2 = raw_rel(seq)
        er2, dr2 = rel_events(out2)
        # canonical content (timed events in order + duration); how a rest is cut into wait messages is not music
        # (claimed by the statement for inputs whose notes were already paired)
        ctx.must("idempotent", implies(paired, and_(events_eq_positionwise(er, er2), eq(dr, dr2))))
        ea, da = abs_events(raw_abs(seq))
        ctx.must("abs_view_same_duration", eq(da, total))
        return [obs_rel(first), obs_rel(out2), da]
    return Query(f"{name}/ch{chans}", fn,
                 ["alternation", "no_repeated_signature", "duration_unchanged",
                  "sound_unchanged_if_paired", "only_input_events", "idempotent", "abs_view_same_duration"],
                 desc=f"normalise on shape {' '.join(shape)} with {chans} channel(s)")


def q_aliased_wait():
    """the same WAIT message object placed at several positions of one sequence (legal: lists hold references)"""
    def fn(ctx):
        w = wait(ctx.int("w", 1, 20))
        p = ctx.int("p", 0, 1)
        msgs = [w, on(0, p, 5), w, w, off(0, p), w]
        total = 4 * w.time
        seq = rel_sequence(msgs)
        seq.normalise()
        er, dr = rel_events(raw_rel(seq))
        ctx.must("duration_unchanged", eq(dr, total), disc="aliased_wait")
        ctx.must("alternation", wellformed_alternation(er), disc="aliased_wait")
        notes, unp = pair_notes(er)
        ctx.must("sound_unchanged_if_paired", len(notes) == 1 and and_(eq(notes[0].start, w.time), eq(notes[0].end, 3 * w.time))
                 if len(notes) == 1 else False, disc="aliased_wait")
        return [obs_rel(raw_rel(seq))]
    return Query("aliased_wait", fn, ["duration_unchanged", "alternation", "sound_unchanged_if_paired"],
                 desc="one WAIT object referenced four times")


def q_renormalise(kind):
    """normalise, make the same object ill-formed through the relative view, normalise again"""
    def fn(ctx):
        msgs = build(ctx, ["ON", "W", "OFF", "W"], 1)
        seq = rel_sequence(msgs)
        seq.normalise()
        p = ctx.int("px", 0, 1)
        if kind == "add_relative":
            seq.add_relative_message(on(0, p, 5))
            seq.add_relative_message(wait(ctx.int("wx", 1, 9)))
        elif kind == "concatenate":
            seq.concatenate([rel_sequence([off(0, p), wait(ctx.int("wx", 1, 9)), on(0, p, 5)])])
        elif kind == "overwrite":
            seq.overwrite_relative_messages([on(0, p, 5), wait(ctx.int("wx", 1, 9)), on(0, p, 6), wait(2)])
        else:
            for m in seq.messages_rel():
                if m.message_type == OFF:
                    m.note = m.note + 1
        in_evs, total = rel_events([m.copy() for m in raw_rel(seq)])
        seq.normalise()
        er, dr = rel_events(raw_rel(seq))
        ctx.must("alternation", wellformed_alternation(er), disc="renormalise")
        ctx.must("duration_unchanged", eq(dr, total), disc="renormalise")
        ea, da = abs_events(raw_abs(seq))
        ctx.must("abs_view_same_duration", eq(da, total), disc="renormalise")
        return [obs_rel(raw_rel(seq))]
    return Query(f"renormalise/{kind}", fn, ["alternation", "duration_unchanged", "abs_view_same_duration"],
                 desc=f"normalise, {kind}, normalise again")


def queries(tier, seed):
    qs = []
    maxlen = 4 if tier == "quick" else 5
    for n in range(1, maxlen + 1):
        for shape in itertools.product(KINDS, repeat=n):
            qs.append(q_shape(list(shape), 1))
            if (tier == "thorough" and n <= 4 or n <= 3) and sum(1 for k in shape if k in ("ON", "OFF")) >= 2:
                qs.append(q_shape(list(shape), 2))
    qs.append(q_aliased_wait())
    for kind in ("add_relative", "concatenate", "overwrite", "edit"):
        qs.append(q_renormalise(kind))
    for shape in TARGETED:
        qs.append(q_shape(shape, 2))
        if len(shape) > maxlen:
            qs.append(q_shape(shape, 1))
    return qs
