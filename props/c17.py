"""C17 equals distinguishes exactly the sequences that differ musically."""
import itertools

from symx.run import Query
from symx.lib import *  # noqa

META = {
    "bounds": {
        "quick": "base sequence of 2 notes (3 relative shapes: overlapping, sequential, simultaneous start) + one TS + one KS; "
                 "pitch 60..62, channel 0..1 (uniform for the channel-relabel case), waits 1..16, velocity 1..127, "
                 "perturbation delta symbolic non-zero in -6..6; all 16 ignore-flag combinations evaluated on every path; "
                 "insertion orders: all 24 orders of the 4 note messages + 6 rotations of all 6 messages",
        "thorough": "as quick with waits 1..32, delta -12..12, a 3-note shape, and all 720 insertion orders of the 6 messages",
    },
    "outside_claim": ["more than 3 notes", "control/program change messages", "ill-formed sequences"],
    "stubs": ["int() shadowed in scoda modules (identity on SymInt)", "logging disabled"],
}

FLAGS = list(itertools.product([False, True], repeat=4))  # channel, time_signature, key_signature, velocity
SHAPES = {
    "ov": [("TS", 3, 4), ("KS", KEYS[2]), "W", ("ON", 0), "W", ("ON", 1), "W", ("OFF", 0), "W", ("OFF", 1), "W"],
    "seq": [("TS", 3, 4), ("KS", KEYS[2]), ("ON", 0), "W", ("OFF", 0), "W", ("ON", 1), "W", ("OFF", 1)],
    "sim": [("TS", 3, 4), ("KS", KEYS[2]), ("ON", 0), ("ON", 1), "W", ("OFF", 0), "W", ("OFF", 1), "W"],
    # a single signature event and a cross-channel onset tie after a leading rest
    "simw_ts": [("TS", 3, 4), "W", ("ON", 0), ("ON", 1), "W", ("OFF", 0), "W", ("OFF", 1)],
    "simw_ks": [("KS", KEYS[2]), "W", ("ON", 0), ("ON", 1), "W", ("OFF", 0), "W", ("OFF", 1)],
    "n3": [("TS", 3, 4), ("KS", KEYS[2]), ("ON", 0), "W", ("ON", 1), "W", ("OFF", 0), ("ON", 2), "W", ("OFF", 1), "W",
           ("OFF", 2)],
}
ATTRS = ["pitch", "onset", "duration", "velocity", "channel", "ts_value", "ts_scaled", "ts_den", "ks_value", "ts_tick", "ks_tick"]
FLAG_OF = {"velocity": 3, "channel": 0, "ts_value": 1, "ts_scaled": 1, "ts_den": 1, "ts_tick": 1, "ks_value": 2, "ks_tick": 2}


class Content:
    def __init__(self, notes, ts_, ks_, total, meta_ch=0):
        self.meta_ch = meta_ch
        self.notes = notes      # list of [ch, pitch, start, end, vel]
        self.ts = ts_           # [num, den, tick]
        self.ks = ks_           # [keyindex, tick]
        self.total = total

    def copy(self):
        return Content([list(n) for n in self.notes], list(self.ts) if self.ts else None, list(self.ks) if self.ks else None,
                       self.total, self.meta_ch)

    def messages(self):
        ms = []
        if self.ts is not None:
            ms.append(ts(self.ts[0], self.ts[1], time=self.ts[2], ch=self.meta_ch))
        if self.ks is not None:
            ms.append(ks(KEYS[self.ks[0]], time=self.ks[1], ch=self.meta_ch))
        for c, p, s, e, v in self.notes:
            ms.append(on(c, p, v, time=s))
            ms.append(off(c, p, time=e))
        return ms


def build_abs(content, order=None, cap=True):
    ms = content.messages()
    if order is not None:
        ms = [ms[i] for i in order]
    a = AbsoluteSequence()
    for m in ms:
        a.add_message(m)
    if cap:
        a.add_message(Message(message_type=INTERNAL, channel=content.meta_ch, time=content.total))
    return Sequence(absolute_sequence=a)


def base(ctx, shape, wmax, uniform_channel):
    # the signature events sit on channel 0, or on a symbolic channel for the shape with a cross-channel onset tie
    mch = ctx.int("meta_ch", 0, 1) if shape.startswith("simw") and not uniform_channel else 0
    b = build_rel(ctx, SHAPES[shape], pitch=(60, 62), chan=(0, 0) if uniform_channel else (0, 1), wait=(1, wmax), vel=(0, 127),
                  meta_ch=mch)
    ctx.assume(distinct_keys_or_disjoint(ctx, b.notes))
    cont = Content([[n.ch, n.pitch, n.start, n.end, n.vel] for n in b.notes], [3, 4, 0] if shape != "simw_ks" else None,
                   [2, 0] if shape != "simw_ts" else None, b.total, meta_ch=mch)
    return b, cont


def all_flags(a, b):
    return [a.equals(b, *f) for f in FLAGS]


def q_same(shape, wmax):
    def fn(ctx):
        b, cont = base(ctx, shape, wmax, False)
        a = rel_sequence(b.msgs)
        a2 = build_abs(cont)
        cp = a.copy()
        res = {"reflexive": all_flags(a, a), "copy": all_flags(a, cp), "copy_rev": all_flags(cp, a),
               "rerepresented": all_flags(a, a2), "rerepresented_rev": all_flags(a2, a),
               "eq_operator": [a == cp, a == a2, a2 == a]}
        for k, v in res.items():
            ctx.must(k, and_([x is True or (x is not False and x) for x in v]) if all(isinstance(x, bool) for x in v) is False
                     else all(v))
        return {k: v for k, v in res.items()}
    return Query(f"same/{shape}/w{wmax}", fn, ["reflexive", "copy", "copy_rev", "rerepresented", "rerepresented_rev",
                                               "eq_operator"], desc=f"identical pairs on shape {shape}")


def q_orders(shape, wmax, orders, tag):
    def fn(ctx):
        b, cont = base(ctx, shape, wmax, False)
        a = rel_sequence(b.msgs)
        out = []
        for o in orders:
            x = build_abs(cont, order=o)
            out.append([a.equals(x), x.equals(a)])
        ctx.must("insertion_order_irrelevant", all(r[0] is True and r[1] is True for r in out))
        return out
    return Query(f"orders/{shape}/w{wmax}/{tag}", fn, ["insertion_order_irrelevant"],
                 desc=f"{len(orders)} insertion orders of the same events, shape {shape}")


def q_perturb(shape, wmax, attr, dmax, which):
    def fn(ctx):
        b, cont = base(ctx, shape, wmax, attr == "channel")
        d = ctx.int("delta", -dmax, dmax)
        ctx.assume(d != 0)
        a = build_abs(cont)
        c2 = cont.copy()
        i = which % len(cont.notes)
        if attr == "pitch":
            c2.notes[i][1] = c2.notes[i][1] + d
        elif attr == "onset":
            c2.notes[i][2] = c2.notes[i][2] + d
            c2.notes[i][3] = c2.notes[i][3] + d
            ctx.assume(c2.notes[i][2] >= 0)
            c2.total = ite(c2.notes[i][3] > c2.total, c2.notes[i][3], c2.total)
        elif attr == "duration":
            c2.notes[i][3] = c2.notes[i][3] + d
            ctx.assume(c2.notes[i][3] > c2.notes[i][2])
            c2.total = ite(c2.notes[i][3] > c2.total, c2.notes[i][3], c2.total)
        elif attr == "velocity":
            c2.notes[i][4] = c2.notes[i][4] + d * (1 if which == 0 else 127)      # also the extreme pair 0 / 127
            ctx.assume(and_(c2.notes[i][4] >= 0, c2.notes[i][4] <= 127))
        elif attr == "channel":
            for n in c2.notes:
                n[0] = n[0] + abs(d)
            c2.meta_ch = c2.meta_ch + abs(d)
        elif attr == "ts_value":
            c2.ts[0] = c2.ts[0] + abs(d)
        elif attr == "ts_scaled":
            c2.ts[0], c2.ts[1] = c2.ts[0] * 2, c2.ts[1] * 2       # 3/4 vs 6/8: same ratio, different signature
        elif attr == "ts_den":
            c2.ts[1] = c2.ts[1] * 2
        elif attr == "ks_value":
            c2.ks[0] = (c2.ks[0] + 1 + which) % 15
        elif attr == "ts_tick":
            c2.ts[2] = c2.ts[2] + abs(d)
        elif attr == "ks_tick":
            c2.ks[1] = c2.ks[1] + abs(d)
        # the perturbed piece must itself stay well-formed
        pn = [NoteV(*[n[0], n[1], n[2], n[3], n[4]]) for n in c2.notes]
        ctx.assume(distinct_keys_or_disjoint(ctx, pn))
        bseq = build_abs(c2)
        ab = all_flags(a, bseq)
        ba = all_flags(bseq, a)
        fl = FLAG_OF.get(attr)
        want = [bool(f[fl]) if fl is not None else False for f in FLAGS]
        bad = [FLAGS[k] for k in range(16) if ab[k] is not want[k]]
        ctx.note("flags(channel,ts,ks,velocity) with wrong answer", bad)
        ctx.must("perturbed_" + attr, not bad, disc=attr)
        ctx.must("symmetric", all(ab[k] is ba[k] for k in range(16)), disc=attr)
        return [ab, ba]
    return Query(f"perturb/{shape}/w{wmax}/{attr}/note{which}/d{dmax}", fn, ["perturbed_" + attr, "symmetric"],
                 desc=f"single-attribute perturbation of {attr} on shape {shape}")


def q_perturb_by_operation(shape, wmax):
    """the other sequence is a copy changed through the public API (both of its views exist before the change)"""
    def fn(ctx):
        b, cont = base(ctx, shape, wmax, True)
        a = build_abs(cont)
        d = ctx.int("delta", 1, 3)
        out = {}
        for name in ("transpose", "set_channel", "pad_only"):
            x = a.copy()
            x.abs
            x.rel
            if name == "transpose":
                x.transpose(d)
            elif name == "set_channel":
                x.set_channel(d)
            else:
                x.pad(cont.total + d)
            out[name] = [all_flags(a, x), all_flags(x, a)]
        ctx.must("transposed_copy_differs", not any(out["transpose"][0]) and not any(out["transpose"][1]))
        want_ch = [bool(f[0]) for f in FLAGS]
        ctx.must("rechannelled_copy_differs_unless_ignored", all(out["set_channel"][0][k] is want_ch[k] and
                                                                  out["set_channel"][1][k] is want_ch[k] for k in range(16)))
        ctx.must("padded_copy_equal", all(out["pad_only"][0]) and all(out["pad_only"][1]))
        return out
    return Query(f"by_operation/{shape}/w{wmax}", fn, ["transposed_copy_differs", "rechannelled_copy_differs_unless_ignored",
                                                      "padded_copy_equal"], desc="copies changed by transpose / set_channel / pad")


def queries(tier, seed):
    qs = []
    wmax, dmax = (16, 6) if tier == "quick" else (32, 12)
    shapes = ["ov", "seq", "sim", "simw_ts", "simw_ks"] + (["n3"] if tier == "thorough" else [])
    note_orders = [[0, 1] + [2 + j for j in p] for p in itertools.permutations(range(4))]
    rot = [list(range(k, 6)) + list(range(k)) for k in range(6)]
    qs.append(q_perturb_by_operation("ov", 8))
    qs.append(q_perturb_by_operation("seq", 8))
    for s in shapes:
        qs.append(q_same(s, wmax))
        if s.startswith("simw"):
            for attr in (("ts_tick", "ts_value", "onset") if s == "simw_ts" else ("ks_tick", "ks_value", "velocity")):
                qs.append(q_perturb(s, min(wmax, 5), attr, dmax, 0))
            continue
        if s != "n3":
            qs.append(q_orders(s, wmax, note_orders, "notes24"))
            qs.append(q_orders(s, wmax, rot, "rot6"))
            if tier == "thorough":
                allp = [list(p) for p in itertools.permutations(range(6))]
                for k in range(0, 720, 60):
                    qs.append(q_orders(s, min(wmax, 8), allp[k:k + 60], f"all{k}"))
        for attr in ATTRS:
            for which in ((0, 1) if attr in ("pitch", "onset", "duration", "velocity") else (0,)):
                qs.append(q_perturb(s, wmax, attr, dmax, which))
    return qs
