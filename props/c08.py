"""C08 Splitting a sequence conserves duration, sound and events with exact capacities."""
from symx.run import Query
from symx.lib import *  # noqa

META = {
    "bounds": {
        "quick": "8 relative shapes of <=2 notes (+ TS/KS/PC events incl. one on the final tick), pitch 60..61 x channel 0..1 "
                 "(same pitch on two channels reachable), waits 1..40, 1-2 symbolic capacities 1..60, velocity 1..127, probe tick symbolic",
        "thorough": "as quick plus 3- and 4-note shapes, 4 events, 3 capacities, waits 1..60, capacities 1..80",
    },
    "outside_claim": ["more than 3 notes / 3 capacities", "ill-formed sources (unclosed notes)", "control change messages"],
    "stubs": ["int() shadowed in scoda modules (identity on SymInt)", "logging disabled"],
}

SHAPES = {
    "n1": ["W", ("ON", 0), "W", ("OFF", 0), "W"],
    "n1b": [("ON", 0), "W", ("OFF", 0)],
    "n2ov": [("ON", 0), "W", ("ON", 1), "W", ("OFF", 0), "W", ("OFF", 1), "W"],
    "n2sim": [("ON", 0), ("ON", 1), "W", ("OFF", 0), ("OFF", 1), "W"],
    "n2seq": ["W", ("ON", 0), "W", ("OFF", 0), ("ON", 1), "W", ("OFF", 1)],
    "ev": [("TS", 3, 4), ("ON", 0), "W", ("KS", KEYS[3]), "W", ("OFF", 0), "W", ("PC", 5), "W"],
    "evend": [("ON", 0), "W", ("OFF", 0), "W", ("TS", 6, 8)],
    "evmid": [("ON", 0), "W", ("TS", 6, 8), ("KS", KEYS[9]), "W", ("OFF", 0), ("PC", 2), "W"],
    "n3": [("ON", 0), "W", ("ON", 1), "W", ("OFF", 0), ("ON", 2), "W", ("OFF", 1), "W", ("OFF", 2), "W"],
    "n4": [("ON", 0), "W", ("ON", 1), "W", ("OFF", 0), ("ON", 2), "W", ("OFF", 1), ("ON", 3), "W", ("OFF", 2), "W", ("OFF", 3), "W"],
    "ev3": [("TS", 3, 4), "W", ("KS", KEYS[3]), ("ON", 0), "W", ("PC", 5), "W", ("OFF", 0), ("TS", 4, 4), "W", ("KS", KEYS[5])],
    "evrep": [("TS", 3, 4), ("KS", KEYS[3]), ("ON", 0), "W", ("TS", 3, 4), "W", ("OFF", 0), ("KS", KEYS[3]), "W"],
    "n3sim": [("ON", 0), ("ON", 1), ("ON", 2), "W", ("OFF", 0), "W", ("OFF", 1), ("OFF", 2)],
}


def q_split(shape, ncaps, wmax, cmax):
    def fn(ctx):
        b = build_rel(ctx, SHAPES[shape], pitch=(60, 61), chan=(0, 1), wait=(1, wmax))
        ctx.assume(distinct_keys_or_disjoint(ctx, b.notes))
        caps = [ctx.int(f"cap{i}", 1, cmax) for i in range(ncaps)]
        tau = ctx.int("tau", 0, wmax * len(b.waits) + 1)
        src = rel_sequence(b.msgs)
        before = [Ev(e.t, e.m) for e in b.all_events]   # build_rel keeps copies in all_events
        pieces = src.split(caps)
        ctx.must("piece_count", len(pieces) <= ncaps + 1)
        offs = []
        durs = []
        allev = []
        off_t = 0
        ok_wf = []
        for k, pc_ in enumerate(pieces):
            er, dr = rel_events(raw_rel(pc_))
            offs.append(off_t)
            durs.append(dr)
            ok_wf.append(wellformed_alternation(er))
            allev.extend([Ev(e.t + off_t, e.m) for e in er])
            off_t = off_t + dr
        ctx.must("exact_capacities", and_([eq(durs[k], caps[k]) for k in range(len(pieces) - 1)]))
        ctx.must("durations_sum", eq(off_t, b.total))
        ctx.must("pieces_wellformed", and_(ok_wf))
        ctx.must("roll_conserved", roll_equal(before, allev, tau, keys=keys_of(before)))
        ons = [e for e in allev if e.kind == ON]
        conds = []
        for o in ons:
            alts = [and_(eq(o.t, i.t), eq(o.m.channel, i.m.channel), eq(o.m.note, i.m.note), eq(o.m.velocity, i.m.velocity))
                    for i in before if i.kind == ON]
            for k in range(1, len(pieces)):
                for n in b.notes:
                    alts.append(and_(eq(o.t, offs[k]), eq(o.m.channel, n.ch), eq(o.m.note, n.pitch),
                                     eq(o.m.velocity, n.vel), n.start < o.t, o.t < n.end))
            conds.append(or_(alts))
        ctx.must("ons_are_input_or_restrike", and_(conds))
        other_out = [e for e in allev if e.kind not in (ON, OFF)]
        ctx.must("other_events_kept", events_eq_multiset_timed(other_out, b.events))
        er2, dr2 = rel_events(raw_rel(src))
        ea2, da2 = abs_events(raw_abs(src))
        ctx.must("source_unchanged", and_(events_eq_multiset_timed(er2, before), eq(dr2, b.total),
                                          events_eq_multiset_timed(ea2, before), eq(da2, b.total)))
        return [[obs_rel(raw_rel(p)) for p in pieces], obs_rel(raw_rel(src))]
    return Query(f"{shape}/caps{ncaps}/w{wmax}c{cmax}", fn,
                 ["piece_count", "exact_capacities", "durations_sum", "pieces_wellformed", "roll_conserved",
                  "ons_are_input_or_restrike", "other_events_kept", "source_unchanged"],
                 desc=f"split({ncaps} symbolic capacities) on shape {shape}")


def q_split_twice(shape, wmax, cmax):
    """a second split of the same object starts from scratch (no memory of notes cut by the first)"""
    def fn(ctx):
        b = build_rel(ctx, SHAPES[shape], pitch=(60, 61), chan=(0, 1), wait=(1, wmax))
        ctx.assume(distinct_keys_or_disjoint(ctx, b.notes))
        c1 = ctx.int("cap_first", 1, cmax)
        c2 = ctx.int("cap_second", 1, cmax)
        tau = ctx.int("tau", 0, wmax * len(b.waits) + 1)
        src = rel_sequence(b.msgs)
        src.split([c1])
        pieces = src.split([c2])
        allev = []
        off_t = 0
        wf = []
        for pc_ in pieces:
            er, dr = rel_events(raw_rel(pc_))
            wf.append(wellformed_alternation(er))
            allev.extend([Ev(e.t + off_t, e.m) for e in er])
            off_t = off_t + dr
        ctx.must("pieces_wellformed", and_(wf), disc="second split")
        ctx.must("roll_conserved", roll_equal(b.all_events, allev, tau, keys=keys_of(b.all_events)), disc="second split")
        ctx.must("durations_sum", eq(off_t, b.total), disc="second split")
        return [[obs_rel(raw_rel(p)) for p in pieces]]
    return Query(f"twice/{shape}/w{wmax}c{cmax}", fn, ["pieces_wellformed", "roll_conserved", "durations_sum"],
                 desc="split called twice on the same sequence")


def queries(tier, seed):
    qs = []
    if tier == "quick":
        for s in ["n1", "n1b", "n2ov", "n2sim", "n2seq", "ev", "evend", "evmid", "evrep"]:
            for nc in (1, 2):
                qs.append(q_split(s, nc, 40, 60))
        qs.append(q_split_twice("n1", 30, 40))
        qs.append(q_split_twice("n2ov", 12, 30))
    else:
        for s in SHAPES:
            for nc in (1, 2, 3):
                if nc == 3 and s in ("n3", "n3sim", "n4"):
                    continue
                if s == "n4" and nc == 2:
                    qs.append(q_split(s, nc, 20, 60))
                    continue
                qs.append(q_split(s, nc, 60, 80))
        for s in ("n1", "n2ov", "n2sim", "ev"):
            qs.append(q_split_twice(s, 20, 50))
    return qs
