"""C10 A Bar always lasts exactly its time signature, or its construction fails."""
from symx.run import Query
from symx.lib import *  # noqa
from scoda.elements.bar import Bar
from scoda.exceptions.bar_exception import BarException

META = {
    "bounds": {
        "quick": "signatures {4/4,3/4,6/8,2/2,5/8,7/8,12/8,3/8,2/4,4/8,8/4,4/2}; 7 shapes of <=2 notes with 0 / 1 / 2 time-signature events whose "
                 "numerator is symbolic 1..13 (matching, conflicting and duplicate are the solver's choice); (denominator = the bar's, or symbolic in {2,4,8} for the shapes ts_ts and ts_n1); every wait symbolic in "
                 "1..2*capacity (shorter / equal / longer than the bar); key None or one of 15",
        "thorough": "as quick, waits up to 3*capacity, plus a 3-note shape",
    },
    "outside_claim": ["denominators for which the capacity is not an integer number of ticks (e.g. x/64)", "more than 3 notes"],
    "stubs": ["int() shadowed in scoda modules (identity on SymInt)", "logging disabled",
              "duration/PPQN modelled as an exact real quotient; comparison with the capacity certified exact (DESIGN 2.3)"],
}

SIGS = [(4, 4), (3, 4), (6, 8), (2, 2), (5, 8), (7, 8), (12, 8), (3, 8), (2, 4), (4, 8), (8, 4), (4, 2)]
SHAPES = {
    "empty": [],
    "rest": ["W"],
    "n1": [("ON", 0), "W", ("OFF", 0), "W"],
    "ts_n1": [("TSX", 0), ("ON", 0), "W", ("OFF", 0)],
    "n1_ts_mid": [("ON", 0), "W", ("TSX", 0), "W", ("OFF", 0)],
    "ts_ts": [("TSX", 0), ("ON", 0), "W", ("OFF", 0), ("TSX", 1), "W"],
    "n2": ["W", ("ON", 0), "W", ("ON", 1), "W", ("OFF", 0), ("OFF", 1)],
    "n3_ts": [("TSX", 0), ("ON", 0), "W", ("ON", 1), "W", ("OFF", 0), ("ON", 2), "W", ("OFF", 1), ("OFF", 2), ("TSX", 1)],
}


def q_bar(sig, shape, factor, key, symden, stale_times=False, via_abs=False):
    num, den = sig
    cap = num * 24 * 4 // den

    def fn(ctx):
        spec = []
        tsx = []
        for el in SHAPES[shape]:
            if isinstance(el, tuple) and el[0] == "TSX":
                n_ = ctx.int(f"tsnum{el[1]}", 1, 13)
                if symden:
                    dsel = ctx.int(f"tsden{el[1]}", 0, 2)
                    d_ = ite(eq(dsel, 0), 2, ite(eq(dsel, 1), 4, 8))
                else:
                    d_ = den
                tsx.append((n_, d_))
                spec.append(("TS", n_, d_))
            else:
                spec.append(el)
        b = build_rel(ctx, spec, pitch=(60, 61), chan=(0, 0), wait=(1, factor * cap))
        ctx.assume(distinct_keys_or_disjoint(ctx, b.notes))
        if stale_times:
            # relative messages taken over from an absolute view keep a (meaningless) time value
            for i_, m_ in enumerate(b.msgs):
                if m_.message_type != WAIT:
                    m_.time = ctx.int(f"stale{i_}", 0, 2 * cap)
        seq = rel_sequence(b.msgs)
        if via_abs:
            # the sequence went through an absolute-view reader first: only its absolute view is current
            for _m in seq.messages_abs():
                pass
        ok, res = call(Bar, seq, num, den, key)
        too_long = b.total > cap
        conflicting = or_([not_(and_(eq(n_, num), eq(d_, den))) for n_, d_ in tsx]) if tsx else False
        if not ok:
            ctx.must("only_bar_exception", isinstance(res, BarException), disc=type(res).__name__)
            ctx.note("exception", repr(res))
            # rejection must have a reason the property names: too long, conflicting or a second signature
            ctx.must("rejected_for_a_reason", or_(too_long, conflicting, len(tsx) >= 2))
            return ["rejected", type(res).__name__]
        bar = res
        ctx.must("accepted_not_too_long", not_(too_long))
        ctx.must("accepted_not_conflicting", not_(conflicting))
        msgs = raw_rel(bar.sequence)
        er, dr = rel_events(msgs)
        ea, da = abs_events(raw_abs(bar.sequence))
        ctx.must("lasts_exactly_capacity", and_(eq(dr, cap), eq(da, cap)))
        tss = [e for e in er if e.kind == TS]
        ctx.must("starts_with_its_signature",
                 len(msgs) > 0 and msgs[0].message_type == TS and and_(eq(msgs[0].numerator, num), eq(msgs[0].denominator, den)))
        ctx.must("single_signature", len(tss) == 1 and len([e for e in ea if e.kind == TS]) == 1)
        ctx.must("attributes", bar.time_signature_numerator == num and bar.time_signature_denominator == den
                 and bar.key_signature == key)
        notes_out, unp = pair_notes(er)
        ctx.must("notes_kept", and_(multiset_eq([n.tup() for n in notes_out], [n.tup() for n in b.notes]), unp == 0))
        okc, cp = call(bar.copy)
        ctx.must("copy_succeeds", okc)
        if okc:
            er2, dr2 = rel_events(raw_rel(cp.sequence))
            ctx.must("copy_equal", and_(events_eq_positionwise(er, er2), eq(dr, dr2),
                                        cp.time_signature_numerator == num, cp.time_signature_denominator == den,
                                        cp.key_signature == key, cp.sequence is not bar.sequence))
            ctx.must("copy_library_eq", cp.sequence == bar.sequence)
        return ["accepted", obs_rel(msgs), da]
    return Query(f"{num}-{den}/{shape}/x{factor}/key{key.value if key else None}{'/symden' if symden else ''}{'/stale' if stale_times else ''}{'/via_abs' if via_abs else ''}", fn,
                 [], desc=f"Bar({shape}, {num}/{den})")


def queries(tier, seed):
    qs = []
    shapes = ["empty", "rest", "n1", "ts_n1", "n1_ts_mid", "ts_ts", "n2"]
    for i, sig in enumerate(SIGS):
        for j, s in enumerate(shapes):
            key = None if (i + j) % 2 == 0 else KEYS[(seed + i * 7 + j) % 15]
            qs.append(q_bar(sig, s, 2 if tier == "quick" else 3, key, False))
    for sig in ((4, 4), (6, 8), (3, 8)):
        qs.append(q_bar(sig, "n1", 2, None, False, stale_times=True))
        qs.append(q_bar(sig, "ts_n1", 2, None, False, stale_times=True))
    for sig in ((4, 4), (6, 8), (3, 8)):
        for s in ("rest", "n1", "ts_n1"):
            qs.append(q_bar(sig, s, 2, None, False, via_abs=True))
    for sig in SIGS:
        # signature events whose denominator is symbolic in {2,4,8} as well
        qs.append(q_bar(sig, "ts_ts", 2, KEYS[4], True))
        qs.append(q_bar(sig, "ts_n1", 2, None, True))
    if tier == "thorough":
        for sig in SIGS:
            qs.append(q_bar(sig, "n3_ts", 2, None, False))
            qs.append(q_bar(sig, "n1_ts_mid", 2, None, True))
        for key in KEYS:
            qs.append(q_bar((4, 4), "ts_n1", 3, key, True))
            qs.append(q_bar((6, 8), "n2", 3, key, False))
    return qs


def preflight(ctl, tier, seed):
    return {"clauses_reached_note": "clauses are reached on accepted or rejected paths only; vacuity is guarded per property "
                                    "by REQUIRED below instead of per query"}


REQUIRED = ["only_bar_exception", "rejected_for_a_reason", "accepted_not_too_long", "lasts_exactly_capacity",
            "starts_with_its_signature", "single_signature", "notes_kept", "copy_equal"]
