"""C13 Loading rescales file ticks exactly and routes every event to the right sequence."""
import mido

from symx.run import Query
from symx.lib import *  # noqa
from scoda.midi.midi_file import MidiFile

META = {
    "bounds": {
        "quick": "IEEE part (QF_BVFP, sliced from convert's source): ppq {480,960,100} x 1 delta of 10 bits, ppq 480/960 x 2 accumulated deltas of 6/5 bits; routing: 3 file tracks (3 notes, two of them on the same channel and pitch in different tracks, 2 time signatures, 1 key signature; symbolic delta times 0..40, velocities 1..127, "
                 "note-on-velocity-0 used as note-off on one track) x 9 groupings / meta selections / meta target indices at resolution 24; "
                 "rescaling (exact part): one track of 2 notes + signature, delta times 0..200, ticks_per_beat in {3,6,12,24,48,96,192,384} "
                 "(24/ppq a power of two: every float operation certified exact)",
        "thorough": "as quick plus the IEEE-754 part: the rescale statements of MidiFile.convert sliced from its current source and "
                    "translated to Float64 (QF_BVFP), ppq in {480, 960}, 2 accumulated deltas of 8 bits",
    },
    "outside_claim": ["non-dyadic resolutions beyond 2 accumulated 8-bit deltas", "more than 3 tracks", "SMPTE time division",
                      "signature events of different tracks on the same tick"],
    "stubs": ["no file I/O: mido.MidiFile / MidiTrack / Message objects are constructed directly and handed to the real "
              "MidiFile.parse_mido and convert", "int() shadowed", "logging disabled"],
}


class FileNote:
    def __init__(self, ch, pitch, vel, on_delta, off_delta, off_as_on0=False):
        self.ch, self.pitch, self.vel, self.on_delta, self.off_delta, self.off_as_on0 = ch, pitch, vel, on_delta, off_delta, off_as_on0


def build_file(ctx, tpb, dmax, plan):
    """plan: list of tracks; track = list of ("N", pitch, ch, on0) | ("NOFF", pitch) | ("TS", n, d) | ("KS", key) | ("PC",)
    every element is preceded by its own symbolic delta time.  -> (scoda MidiFile, per-track expected events with file ticks)"""
    mf = mido.MidiFile()
    mf.ticks_per_beat = tpb
    exp = []
    k = 0
    for ti, tr in enumerate(plan):
        mt = mido.MidiTrack()
        T = 0
        evs = []
        for el in tr:
            d = ctx.int(f"d{k}", 0, dmax)
            k += 1
            T = T + d
            if el[0] == "ON":
                v = ctx.int(f"v{k}", 1, 127)
                mt.append(mido.Message("note_on", channel=el[2], note=el[1], velocity=v, time=d))
                evs.append(Ev(T, on(el[2], el[1], v)))
            elif el[0] == "OFF":
                if el[3]:
                    mt.append(mido.Message("note_on", channel=el[2], note=el[1], velocity=0, time=d))
                else:
                    mt.append(mido.Message("note_off", channel=el[2], note=el[1], velocity=ctx.int(f"rv{k}", 0, 127), time=d))
                evs.append(Ev(T, off(el[2], el[1])))
            elif el[0] == "TS":
                mt.append(mido.MetaMessage("time_signature", numerator=el[1], denominator=el[2], time=d))
                evs.append(Ev(T, ts(el[1], el[2])))
            elif el[0] == "KS":
                mt.append(mido.MetaMessage("key_signature", key=el[1].value, time=d))
                evs.append(Ev(T, ks(el[1])))
            elif el[0] == "TEXT":
                mt.append(mido.MetaMessage("text", text="x", time=d))
            elif el[0] == "NAME":
                mt.append(mido.MetaMessage("track_name", name="x", time=d))
            elif el[0] == "DANGLING_ON":
                mt.append(mido.Message("note_on", channel=el[2], note=el[1], velocity=ctx.int(f"v{k}", 1, 127), time=d))
        mt.append(mido.MetaMessage("end_of_track", time=0))
        mf.tracks.append(mt)
        exp.append(evs)
        # well-formed track: every note lasts MORE than one library tick after rescaling.  A shorter note collapses onto one
        # tick and is removed as zero-length; a note of exactly one library tick that starts on a half-tick position also
        # collapses because Python rounds half to even (49.5 -> 50, 50.5 -> 50): observed on the unchanged tree, recorded in
        # DESIGN.md as outside the claim (each end is still within half a tick of its exact position).
        for a in evs:
            if a.kind == ON:
                b_ = next(x for x in evs if x.kind == OFF and x.m.note == a.m.note and x.m.channel == a.m.channel and x is not a
                          and evs.index(x) > evs.index(a))
                ctx.assume(24 * (b_.t - a.t) > tpb)
    smf = MidiFile()
    smf.parse_mido(mf)
    return smf, exp


ROUTING_PLAN = [
    [("TS", 3, 4), ("ON", 60, 0), ("OFF", 60, 0, False)],
    [("NAME",), ("ON", 61, 1), ("TEXT",), ("OFF", 61, 1, True), ("TS", 6, 8)],
    [("ON", 60, 0), ("KS", KEYS[3]), ("OFF", 60, 0, True)],
]
# a track with an unmatched note-on: on its own it carries no complete note (normalise removes it, C07), so it must not
# disturb the notes of the other tracks of its group
DANGLING_PLAN = [
    [("TS", 3, 4), ("ON", 60, 0), ("OFF", 60, 0, False)],
    [("ON", 61, 1), ("OFF", 61, 1, True)],
    [("NAME",), ("DANGLING_ON", 60, 0), ("KS", KEYS[3])],
]
GROUPINGS = {
    "default": (None, None, 0),
    "all_sep": ([[0], [1], [2]], [0, 1, 2], 0),
    "merge01": ([[0, 1], [2]], [0], 0),
    "merge02": ([[0, 2], [1]], [1], 1),
    "meta_only0": ([[1], [2]], [0], 0),
    "meta_only0_t1": ([[1], [2]], [0], 1),
    "skip1": ([[0], [2]], [0], 0),
    "reorder": ([[2], [0]], [1], 1),
    "only1": ([[1]], [], 0),
}


def q_route(gname, dmax, plan=None, tag=""):
    groups, metas, target = GROUPINGS[gname]
    plan = plan or ROUTING_PLAN

    def fn(ctx):
        smf, exp = build_file(ctx, 24, dmax, plan)
        g = groups if groups is not None else [[0], [1], [2]]
        m = metas if metas is not None else [0, 1, 2]
        considered = sorted({i for gr in g for i in gr} | set(m))
        sig = [e for i in considered for e in exp[i] if e.kind in (TS, KS)]
        tsticks = [e.t for e in sig if e.kind == TS]
        ctx.assume(and_([not_(eq(a, b)) for i, a in enumerate(tsticks) for b in tsticks[i + 1:]]))
        tau = ctx.int("tau", 0, dmax * 6)
        out = Sequence.sequences_load(midi_file=smf, track_indices=groups, meta_track_indices=metas,
                                      target_meta_track_index=target)
        ctx.must("one_sequence_per_group", len(out) == len(g))
        if len(out) != len(g):
            return ["count", len(out)]
        for gi, gr in enumerate(g):
            ea, da = abs_events(raw_abs(out[gi]))
            src = [e for i in gr for e in exp[i] if e.kind in (ON, OFF)]
            keys = keys_of(src) + keys_of(ea)
            union = lambda c, p: or_([sounding_count([e for e in exp[i] if e.kind in (ON, OFF)], c, p, tau) >= 1 for i in gr])  # noqa
            ctx.must("group_roll_is_union_of_its_tracks",
                     and_([iff(sounding_count(ea, c, p, tau) >= 1, union(c, p)) for c, p in keys]), disc=f"group{gi}")
            ctx.must("group_notes_wellformed", wellformed_alternation(ea), disc=f"group{gi}")
            if gi != target:
                ctx.must("signatures_only_on_meta_target", not any(e.kind in (TS, KS) for e in ea), disc=f"group{gi}")
        em, dm = abs_events(raw_abs(out[target]))
        from props.c15 import union_in_force
        ctx.must("time_signature_in_force", and_([eq(x, y) for x, y in zip(in_force(em, TS, tau, (4, 4)),
                                                                               union_in_force(sig, TS, tau, (4, 4)))]))
        ctx.must("key_signature_in_force", and_([eq(x, y) for x, y in zip(in_force(em, KS, tau, (-1,)),
                                                                              union_in_force(sig, KS, tau, (-1,)))]))
        ctx.must("integer_ticks", all(is_int(mm.time) for s in out for mm in raw_abs(s)))
        return [obs_abs(raw_abs(s)) for s in out]
    return Query(f"route{tag}/{gname}/d{dmax}", fn,
                 ["one_sequence_per_group", "group_roll_is_union_of_its_tracks", "group_notes_wellformed",
                  "time_signature_in_force", "key_signature_in_force", "integer_ticks"],
                 desc=f"routing with track_indices={groups} meta={metas} target={target}")


RESCALE_PLAN = [[("ON", 60, 0), ("TS", 3, 4), ("ON", 62, 0), ("OFF", 60, 0, False), ("KS", KEYS[8]), ("OFF", 62, 0, True)]]
RESCALE_PLAN2 = [[("TS", 6, 8), ("ON", 60, 0), ("OFF", 60, 0, False)], [("ON", 61, 1), ("OFF", 61, 1, True)]]


def q_rescale(tpb, dmax, plan, pname, second_load=False):
    def fn(ctx):
        smf, exp = build_file(ctx, tpb, dmax, plan)
        if second_load:
            # one parsed file loaded more than once (e.g. with several groupings): every load sees the file, not the
            # leftovers of the previous load
            Sequence.sequences_load(midi_file=smf, track_indices=[[0]], meta_track_indices=[0])
        out = Sequence.sequences_load(midi_file=smf)
        ctx.must("one_sequence_per_track", len(out) == len(plan))
        conds = []
        found = []
        for ti in range(min(len(plan), len(out))):
            ea, da = abs_events(raw_abs(out[ti]))
            allev = ea if ti != 0 else ea
            for e in exp[ti]:
                # locate the loaded event: same kind (+ pitch for notes); signatures live on sequence 0
                pool = abs_events(raw_abs(out[0]))[0] if e.kind in (TS, KS) else ea
                cands = [o for o in pool if o.kind == e.kind and (e.kind not in (ON, OFF) or (o.m.note == e.m.note))
                         and (e.kind != TS or (o.m.numerator == e.m.numerator and o.m.denominator == e.m.denominator))]
                found.append(len(cands) >= 1)
                # nearest tick: 2*|pos*tpb - 24*T| <= tpb   (no accumulation: T is the exact sum of the deltas)
                conds.append(or_([2 * abs(o.t * tpb - 24 * e.t) <= tpb for o in cands]) if cands else False)
        ctx.must("every_event_loaded", all(found))
        ctx.must("nearest_tick_no_accumulation", and_(conds))
        ctx.must("integer_ticks", all(is_int(mm.time) for s in out for mm in raw_abs(s)))
        return [obs_abs(raw_abs(s)) for s in out]
    return Query(f"rescale/{pname}/tpb{tpb}/d{dmax}{'/second_load' if second_load else ''}", fn,
                 ["one_sequence_per_track", "every_event_loaded", "nearest_tick_no_accumulation", "integer_ticks"],
                 desc=f"rescaling from {tpb} ticks per beat")


def queries(tier, seed):
    qs = []
    for g in GROUPINGS:
        qs.append(q_route(g, 40 if tier == "thorough" else 24))
    qs.append(q_route("merge02", 24, plan=DANGLING_PLAN, tag="_dangling"))
    qs.append(q_route("default", 24, plan=DANGLING_PLAN, tag="_dangling"))
    for tpb in (3, 6, 12, 24, 48, 96, 192, 384):
        qs.append(q_rescale(tpb, 200 if tpb >= 24 else 60, RESCALE_PLAN, "one"))
    for tpb in (12, 96):
        qs.append(q_rescale(tpb, 100, RESCALE_PLAN2, "two"))
    for tpb in (48, 12):
        qs.append(q_rescale(tpb, 60, RESCALE_PLAN2, "two", second_load=True))
    return qs


# ---- IEEE-754 part (QF_BVFP), see symx/fpkern.py
def _fp_jobs(tier):
    if tier == "quick":
        return [(480, 1, 10), (960, 1, 10), (100, 1, 10), (480, 2, 6), (960, 2, 5)]
    return [(480, 2, 8), (960, 2, 8), (480, 1, 14), (96 * 5, 1, 12), (100, 2, 6)]


def _fp_one(job):
    from symx import fpkern
    ppq, k, bits = job
    return fpkern.check(MidiFile.convert, ppq, k, bits, timeout_s=1500)


def extra_checks(ctl, tier, seed):
    import multiprocessing as mp
    jobs = _fp_jobs(tier)
    with mp.get_context("fork").Pool(min(len(jobs), 8)) as pool:
        res = pool.map(_fp_one, jobs)
    out = []
    for job, r in zip(jobs, res):
        r["id"] = f"ieee_rescale/ppq{job[0]}/k{job[1]}/bits{job[2]}"
        r["clause"] = "nearest_tick_no_accumulation_ieee"
        if r["status"] == "violated":
            r["inputs"] = {"ppq": job[0], "deltas": r["deltas"]}
        out.append(r)
    return out


def replay_extra(xid, inputs):
    from symx import fpkern
    return fpkern.replay(inputs["ppq"], inputs["deltas"])
