"""C05 Quantise puts every event on the grid and keeps every note well-formed."""
from symx.run import Query
from symx.lib import *  # noqa

META = {
    "bounds": {
        "quick": "step lists {[6],[4],[6,4],[4,6],[12,8],[3,2]} with 1 note and 1 note + key/time signature; {[6],[4],[6,4],[3,2]} with 2 notes "
                 "back to back on one (channel,pitch); {[6],[4]} with 2 notes of symbolic pitch 60..61 and channel 0..1 interleaved or "
                 "simultaneous (same pitch on two channels reachable); waits (gaps and durations) 0/1..2*max(step)+1; default step list, 1 note, waits <= 13; 2 simultaneous notes with (channel,pitch) drawn from 7 pairs chosen to collide under non-injective note keys; quantise / add off-grid note + event through the absolute view / quantise again",
        "thorough": "as quick plus 2 very short notes, 2 notes + event for {[6],[4]}, [12,8] and [4,6] with 2 notes back to back, default list with 1 note and waits <= 30, single-note waits up to 3*max(step)",
    },
    "outside_claim": ["more than 2 notes + 1 event", "symbolic step sizes (division by a symbolic integer)", "ill-formed input (unclosed notes)"],
    "stubs": ["int() shadowed", "logging disabled",
              "find_minimal_distance replaced by an ite-merged summary translated from its current source"],
}

STEPS = {"s8812": [8, 8, 12], "s6": [6], "s4": [4], "s64": [6, 4], "s46": [4, 6], "s128": [12, 8], "s32": [3, 2], "default": None}
SHAPES = {
    "n1": ["W0", ("ON", 0), "W", ("OFF", 0), "W0"],
    "n2same": ["W0", ("ON", 0), "W", ("OFF", 0), "W0", ("ON", 1), "W", ("OFF", 1)],
    "n2free": ["W0", ("ON", 0), "W", ("ON", 1), "W", ("OFF", 0), "W", ("OFF", 1), "W0"],
    "n2sim": [("ON", 0), ("ON", 1), "W", ("OFF", 0), "W0", ("OFF", 1), "W"],
    "n1ev": ["W0", ("ON", 0), "W", ("KS", KEYS[2]), "W", ("OFF", 0), "W0", ("TS", 3, 4)],
    # two notes that can both collapse inside one grid cell (interleaved removals) with bystanders behind them
    "n2simw": ["W0", ("ON", 0), ("ON", 1), "W", ("OFF", 0), "W0", ("OFF", 1), "W", ("KS", KEYS[2]), "W0", ("PC", 3)],
    "n2short": ["W0", ("ON", 0), ("W", 1, 2), ("OFF", 0), ("W", 0, 2), ("ON", 1), ("W", 1, 2), ("OFF", 1), "W"],
    "n2ev": ["W0", ("ON", 0), "W", ("ON", 1), "W", ("KS", KEYS[2]), ("OFF", 0), "W", ("OFF", 1), "W0"],
}
FREE = {"n2free", "n2sim", "n2ev", "n2simw"}


# (channel, pitch) pairs that collide under plausible non-injective note keys (string concatenation "1"+"110" == "11"+"10",
# channel * 100 + pitch, channel * 32 + pitch, channel + pitch)
KEY_PAIRS = [(1, 110), (11, 10), (0, 100), (1, 0), (1, 5), (0, 37), (2, 4)]


def q_quantise(shape, sname, wmax, both_views=False, keyset=False):
    steps = STEPS[sname]

    def fn(ctx):
        from scoda.misc.util import get_default_step_sizes
        st = list(steps) if steps is not None else list(get_default_step_sizes())
        mx = max(st)
        spec = [("W", 0, wmax) if el == "W0" else el for el in SHAPES[shape]]
        free = shape in FREE
        if keyset:
            b = build_rel(ctx, spec, pitch=(0, 127), chan=(0, 15), wait=(1, wmax))
            for c_, p_, _v in b.params.values():
                ctx.assume(or_([and_(eq(c_, kc), eq(p_, kp)) for kc, kp in KEY_PAIRS]))
        else:
            b = build_rel(ctx, spec, pitch=(60, 61) if free else (60, 60), chan=(0, 1) if free else (0, 0), wait=(1, wmax))
        ctx.assume(distinct_keys_or_disjoint(ctx, b.notes))
        # absolute messages in shape order (ties in insertion order are reachable through add_absolute_message)
        msgs = []
        orig = {}
        for e in b.all_events:
            m = e.m.copy()
            m.time = e.t
            msgs.append(m)
            orig[id(m)] = e.t
        cap = Message(message_type=INTERNAL, channel=0, time=b.total)
        orig[id(cap)] = b.total
        msgs.append(cap)
        seq = abs_sequence(msgs, presorted=True)
        if both_views:
            seq.rel                      # the relative view exists before the call and must follow it
        if steps is None:
            seq.quantise()
        else:
            seq.quantise(list(steps))
        out = raw_abs(seq)
        ea = [Ev(m.time, m) for m in out if m.message_type != INTERNAL]
        if both_views:
            er_, dr_ = rel_events(raw_rel(seq))
            ctx.must("relative_view_follows", and_(events_eq_multiset_timed(er_, ea), eq(dr_, out[-1].time if out else 0)))
        ctx.must("on_grid", and_([or_([eq(m.time % s, 0) for s in st]) for m in out]))
        known = [m for m in out if id(m) in orig]
        ctx.must("only_input_messages", len(known) == len(out))
        ctx.must("moved_at_most_largest_step", and_([abs(m.time - orig[id(m)]) <= mx for m in known]))
        ctx.must("time_ordered", sorted_by_time(ea))
        ctx.must("pairing_alternates", wellformed_alternation(ea))
        notes_out, unp = pair_notes(ea)
        ctx.must("positive_durations", and_([n.end > n.start for n in notes_out] + [unp == 0]))
        ctx.must("no_overlap", distinct_keys_or_disjoint(ctx, notes_out))
        other_in = [m for m in msgs if m.message_type not in (ON, OFF)]
        ctx.must("other_events_kept", all(any(m is o for o in out) for m in other_in))
        # survival of isolated notes
        on_msgs = [m for m in msgs if m.message_type == ON]
        off_msgs = [m for m in msgs if m.message_type == OFF]
        surv = []
        for i, n in enumerate(b.notes):
            on_m = next(m for m in on_msgs if orig[id(m)] is n.start and m.note is n.pitch and m.channel is n.ch) \
                if False else None
        # identify note messages by construction order: k-th ON/OFF of note index i
        idx_on, idx_off = {}, {}
        k = 0
        for el, e in zip([x for x in spec if not (isinstance(x, tuple) and x[0] == "W") and x != "W"], b.all_events):
            if isinstance(el, tuple) and el[0] == "ON":
                idx_on[el[1]] = msgs[k]
            elif isinstance(el, tuple) and el[0] == "OFF":
                idx_off[el[1]] = msgs[k]
            k += 1
        note_ids = [el[1] for el in spec if isinstance(el, tuple) and el[0] == "OFF"]
        for n, i in zip(b.notes, note_ids):
            on_m, off_m = idx_on[i], idx_off[i]
            present = any(on_m is o for o in out) and any(off_m is o for o in out)
            isolated = and_([implies(and_(eq(n.ch, o.ch), eq(n.pitch, o.pitch)),
                                     or_(o.start - n.end >= 2 * mx, n.start - o.end >= 2 * mx))
                             for o in b.notes if o is not n])
            if present:
                ctx.must("survivor_keeps_fields", and_(eq(on_m.note, n.pitch), eq(on_m.channel, n.ch), eq(on_m.velocity, n.vel),
                                                       eq(off_m.note, n.pitch), eq(off_m.channel, n.ch)))
            else:
                cs = [(n.start // s) * s for s in st] + [(n.start // s) * s + s for s in st]
                ce = [(n.end // s) * s for s in st] + [(n.end // s) * s + s for s in st]
                legit = or_([and_(and_([abs(q - n.start) <= abs(c - n.start) for c in cs]), and_([c <= q for c in ce]))
                             for q in cs])
                ctx.must("isolated_note_dropped_only_without_room", implies(isolated, legit), disc=f"note{i}")
        return [obs_abs(out)]
    cl = ["on_grid", "only_input_messages", "moved_at_most_largest_step", "time_ordered", "pairing_alternates",
          "positive_durations", "no_overlap", "other_events_kept", "survivor_keeps_fields"]
    if both_views:
        cl = cl + ["relative_view_follows"]
    return Query(f"{shape}/{sname}/w{wmax}{'/both' if both_views else ''}{'/keyset' if keyset else ''}", fn, cl,
                 desc=f"quantise({steps if steps else 'default'}) on shape {shape}")


def q_requantise(sname, fresh_rel):
    """quantise, edit through the absolute view (events off the grid), quantise again with the same step list:
    the second call must put the new events on the grid as well"""
    steps = STEPS[sname]

    def fn(ctx):
        st = list(steps)
        mx = max(st)
        seq = abs_sequence([on(0, 60, 70, time=3), off(0, 60, time=45)])
        seq.quantise(list(steps))
        if fresh_rel:
            seq.rel
        t1 = ctx.int("t1", 50, 50 + 2 * mx)
        d1 = ctx.int("d1", 1, mx + 1)
        tp = ctx.int("tp", 0, 2 * mx)
        new_on, new_off, new_pc = on(0, 72, 90, time=t1), off(0, 72, time=t1 + d1), pc(3, time=tp)
        for m in (new_on, new_off, new_pc):
            seq.add_absolute_message(m)
        seq.quantise(list(steps))
        out = raw_abs(seq)
        ea = [Ev(m.time, m) for m in out if m.message_type != INTERNAL]
        ctx.must("on_grid", and_([or_([eq(m.time % s, 0) for s in st]) for m in out]))
        ctx.must("other_events_kept", any(m is new_pc for m in out))
        ctx.must("moved_at_most_largest_step", and_(abs(new_pc.time - tp) <= mx,
                                                    implies(any(m is new_on for m in out), abs(new_on.time - t1) <= mx)))
        ctx.must("time_ordered", sorted_by_time(ea))
        ctx.must("pairing_alternates", wellformed_alternation(ea))
        notes_out, unp = pair_notes(ea)
        ctx.must("positive_durations", and_([n.end > n.start for n in notes_out] + [unp == 0]))
        er_, dr_ = rel_events(raw_rel(seq))
        ctx.must("relative_view_follows", events_eq_multiset_timed(er_, ea))
        return [obs_abs(out)]
    return Query(f"requantise/{sname}{'/relfresh' if fresh_rel else ''}", fn,
                 ["on_grid", "other_events_kept", "moved_at_most_largest_step", "time_ordered", "pairing_alternates",
                  "positive_durations", "relative_view_follows"],
                 desc=f"quantise({steps}), add off-grid events through the absolute view, quantise({steps}) again")


REQUIRED = ["isolated_note_dropped_only_without_room"]


def queries(tier, seed):
    qs = []
    multi = ("s64", "s46", "s128", "s32")
    for sn in ("s6", "s4") + multi:
        mx = max(STEPS[sn])
        for s in ("n1", "n1ev"):
            qs.append(q_quantise(s, sn, 2 * mx + 2 if tier == "quick" else 3 * mx))
    for sn in ("s6", "s4", "s64", "s32"):
        qs.append(q_quantise("n2same", sn, min(2 * max(STEPS[sn]) + 1, 13)))
    for sn in ("s6", "s4"):
        qs.append(q_quantise("n2free", sn, 2 * max(STEPS[sn]) + 1))
        qs.append(q_quantise("n2sim", sn, 2 * max(STEPS[sn]) + 1))
    qs.append(q_quantise("n2simw", "s6", 5))
    qs.append(q_quantise("n1", "s8812", 26))
    qs.append(q_quantise("n1", "s6", 14, both_views=True))
    qs.append(q_quantise("n1ev", "s4", 10, both_views=True))       # a step list that repeats a value
    qs.append(q_quantise("n1", "default", 13))
    qs.append(q_quantise("n2sim", "s4", 5, keyset=True))
    qs.append(q_requantise("s6", False))
    qs.append(q_requantise("s64", True))
    if tier == "thorough":
        for sn in ("s6", "s4"):
            qs.append(q_quantise("n2short", sn, 2 * max(STEPS[sn]) + 1))
            qs.append(q_quantise("n2ev", sn, max(STEPS[sn]) + 2))
        qs.append(q_quantise("n2simw", "s4", 4))
        qs.append(q_quantise("n2same", "s128", 13))
        qs.append(q_quantise("n2same", "s46", 9))
        qs.append(q_quantise("n1", "default", 30))
        qs.append(q_quantise("n2free", "s6", 7, keyset=True))
    return qs
