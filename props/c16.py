"""C16 Copies and derived sequences are independent values."""
from symx.run import Query
from symx.lib import *  # noqa
from scoda.elements.bar import Bar
from scoda.elements.composition import Composition
from scoda.elements.track import Track

META = {
    "bounds": {
        "quick": "originals of 2 notes (pitch 60..61, velocity 1..127, first wait symbolic 1..12, the other waits concrete because every symbolic duration multiplies the re-quantisation paths); derivation routes: Sequence.copy from "
                 "each freshness state, Bar.copy, Track.copy, Composition.copy, split (symbolic capacity), sequences_split_bars with "
                 "either re-quantisation setting; one subsequent operation (13 kinds, symbolic arguments) on the derived side or on the original side",
        "thorough": "as quick with waits 1..24 and a 3-note original",
    },
    "outside_claim": ["operation histories longer than one step after derivation (one step from the freshly derived state is the "
                      "inductive step: operations on one object cannot create sharing with an object they do not receive)",
                      "more than 3 notes"],
    "stubs": ["int() shadowed in scoda modules (identity on SymInt)", "logging disabled"],
}

# aliasing does not depend on durations: one wait is symbolic, the others are concrete (every symbolic duration
# multiplies the paths of the bar re-quantisation by ~10)
SHAPES = {
    "n2": [("KS", KEYS[1]), ("ON", 0), "W", ("ON", 1), ("W", 5, 5), ("OFF", 0), ("W", 7, 7), ("OFF", 1), ("W", 3, 3)],
    # not in normal form: a repeated time signature, two adjacent rests
    "n2r": [("TS", 4, 4), ("ON", 0), "W", ("ON", 1), ("W", 5, 5), ("OFF", 0), ("TS", 4, 4), ("W", 4, 4), ("W", 3, 3), ("OFF", 1),
            ("W", 3, 3)],
    "empty": [],
    "n3": [("ON", 0), "W", ("ON", 1), ("W", 5, 5), ("OFF", 0), ("ON", 2), ("W", 4, 4), ("OFF", 1), ("W", 6, 6),
           ("OFF", 2), ("W", 3, 3)],
}


class Snap:
    """value snapshot of a sequence through both raw views"""

    def __init__(self, seq):
        er, self.dr = rel_events(raw_rel(seq))
        ea, self.da = abs_events(raw_abs(seq)) if raw_abs(seq) else ([], 0)
        self.er = [Ev(e.t, e.m.copy()) for e in er]
        self.ea = [Ev(e.t, e.m.copy()) for e in ea]

    def same(self, other):
        return and_(events_eq_multiset_timed(self.er, other.er), eq(self.dr, other.dr),
                    events_eq_multiset_timed(self.ea, other.ea), eq(self.da, other.da))

    def views_agree(self):
        return and_(events_eq_multiset_timed(self.er, self.ea), eq(self.dr, self.da))

    def equal_content(self, other):
        return and_(events_eq_multiset_timed(self.er, other.er), eq(self.dr, other.dr))

    def obs(self):
        return [obs_events(self.er, self.dr), obs_events(self.ea, self.da)]


# ---- steps (public operations with symbolic arguments)
def st_transpose(ctx, s):
    s.transpose(ctx.int("st_n", 1, 2))


def st_set_channel(ctx, s):
    s.set_channel(ctx.int("st_c", 2, 3))


def st_edit_rel(ctx, s):
    d = ctx.int("st_d", 1, 3)
    for m in s.messages_rel():
        if m.message_type == WAIT:
            m.time = m.time + d
        elif m.message_type in (ON, OFF):
            m.note = m.note + 1


def st_edit_abs(ctx, s):
    d = ctx.int("st_d", 1, 3)
    for m in s.messages_abs():
        m.time = m.time + d
        if m.message_type == ON:
            m.velocity = 1 + (m.velocity % 127)


def st_quantise(ctx, s):
    s.quantise([5])


def st_qnl(ctx, s):
    s.quantise_note_lengths([7])


def st_cutoff(ctx, s):
    s.cutoff(2, 1)


def st_scale(ctx, s):
    s.scale(2, quantise_afterwards=False)


def st_scale_half_meta_other(ctx, s):
    # the other side of the derivation is handed in as the (read-only) meta sequence
    s.scale(0.5, meta_sequence=ctx.other, quantise_afterwards=False)


def st_pad(ctx, s):
    s.pad(ctx.int("st_p", 200, 210))


def st_add_rel(ctx, s):
    s.add_relative_message(wait(ctx.int("st_w", 1, 5)), index=0)


def st_add_abs(ctx, s):
    s.add_absolute_message(on(0, 70, 9, time=ctx.int("st_t", 0, 5)))
    s.add_absolute_message(off(0, 70, time=300))


def st_normalise_after_break(ctx, s):
    for m in s.messages_rel():
        if m.message_type == OFF:
            m.note = m.note + 5     # orphan the note-off, unclose the note-on
            break
    s.normalise()


def st_overwrite(ctx, s):
    s.overwrite_relative_messages([wait(ctx.int("st_w", 1, 5))])


STEPS = {"transpose": st_transpose, "set_channel": st_set_channel, "edit_rel": st_edit_rel, "edit_abs": st_edit_abs,
         "quantise": st_quantise, "quantise_note_lengths": st_qnl, "cutoff": st_cutoff, "scale": st_scale, "pad": st_pad,
         "add_rel": st_add_rel, "add_abs": st_add_abs, "normalise_after_break": st_normalise_after_break,
         "overwrite": st_overwrite}
ARG_STEPS = {"scale_half_meta_other": st_scale_half_meta_other}


def mk_orig(ctx, shape, wmax, fresh):
    b = build_rel(ctx, SHAPES[shape], pitch=(60, 61), chan=(0, 0), wait=(1, wmax))
    ctx.assume(distinct_keys_or_disjoint(ctx, b.notes))
    s = rel_sequence(b.msgs)
    if fresh == "abs":
        s = Sequence(absolute_sequence=s.abs)
    elif fresh == "both":
        s.abs
    return b, s


# ---- derivation routes: -> (originals, deriveds, equal_expected)
def route_seq_copy(fresh):
    def r(ctx, shape, wmax):
        b, s = mk_orig(ctx, shape, wmax, fresh)
        return [s], [s.copy()], True
    return r


def route_bar_copy(ctx, shape, wmax):
    b, s = mk_orig(ctx, shape, wmax, "rel")
    bar = Bar(s, 4, 4, KEYS[3])
    cp = bar.copy()
    return [bar.sequence], [cp.sequence], True


def route_bar_copy_after_abs_op(ctx, shape, wmax):
    # the bar's sequence was last changed through its absolute view; the copy must carry that change
    b, s = mk_orig(ctx, shape, wmax, "rel")
    bar = Bar(s, 4, 4, KEYS[3])
    bar.sequence.cutoff(3, 2)
    cp = bar.copy()
    return [bar.sequence], [cp.sequence], True


def route_track_copy_after_abs_op(ctx, shape, wmax):
    bar1, bar2 = _two_bars(ctx, shape, wmax)
    bar1.sequence.quantise_note_lengths([4])
    bar2.sequence.add_absolute_message(on(0, 67, 9, time=50))
    bar2.sequence.add_absolute_message(off(0, 67, time=60))
    tr = Track([bar1, bar2])
    for b_ in tr.bars:
        b_.sequence.cutoff(3, 2)
    cp = tr.copy()
    return [x.sequence for x in tr.bars], [x.sequence for x in cp.bars], True


def _two_bars(ctx, shape, wmax):
    b, s = mk_orig(ctx, shape, wmax, "rel")
    bar1 = Bar(s, 4, 4, None)
    bar2 = Bar(rel_sequence([on(0, 64, 5), wait(9), off(0, 64)]), 4, 4, None)
    return bar1, bar2


def route_track_copy(ctx, shape, wmax):
    bar1, bar2 = _two_bars(ctx, shape, wmax)
    tr = Track([bar1, bar2])
    cp = tr.copy()
    return [x.sequence for x in tr.bars], [x.sequence for x in cp.bars], True


def route_comp_copy(ctx, shape, wmax):
    bar1, bar2 = _two_bars(ctx, shape, wmax)
    comp = Composition([Track([bar1]), Track([bar2])])
    cp = comp.copy()
    return [t.bars[0].sequence for t in comp.tracks], [t.bars[0].sequence for t in cp.tracks], True


def route_split(ctx, shape, wmax):
    b, s = mk_orig(ctx, shape, wmax, "rel")
    pieces = s.split([ctx.int("cap", 1, 2 * wmax)])
    return [s], pieces, False


def route_split_bars(requant):
    def r(ctx, shape, wmax):
        b, s = mk_orig(ctx, shape, wmax, "rel")
        s2 = rel_sequence([wait(6, ch=1), on(1, 64, 5), wait(100, ch=1), off(1, 64)])
        bars = Sequence.sequences_split_bars([s, s2], 0, quantise_note_lengths=requant)
        return [s, s2], [x.sequence for tr in bars for x in tr], False
    return r


def route_split_bars_empty_track(ctx, shape, wmax):
    # a silent (message-less) input track: its bars are placeholders and must not alias the caller's object
    b, s = mk_orig(ctx, shape, wmax, "rel")
    e = Sequence()
    bars = Sequence.sequences_split_bars([s, e], 0, quantise_note_lengths=False)
    return [e, s], [x.sequence for x in bars[1]] + [x.sequence for x in bars[0]], False


def route_seq_copy_after_edit(side):
    def r(ctx, shape, wmax):
        b, s = mk_orig(ctx, shape, wmax, "both")
        if side == "rel":
            s.set_channel(2)            # edit through the relative view; the absolute object is now outdated
        else:
            s.quantise_note_lengths([4])  # edit through the absolute view; the relative object is now outdated
        return [s], [s.copy()], True
    return r


ROUTES = {"seq_copy_rel": route_seq_copy("rel"), "seq_copy_abs": route_seq_copy("abs"), "seq_copy_both": route_seq_copy("both"),
          "bar_copy": route_bar_copy, "bar_copy_after_abs_op": route_bar_copy_after_abs_op,
          "track_copy_after_abs_op": route_track_copy_after_abs_op, "track_copy": route_track_copy, "composition_copy": route_comp_copy,
          "split": route_split, "split_bars_empty_track": route_split_bars_empty_track,
          "seq_copy_after_rel_edit": route_seq_copy_after_edit("rel"), "seq_copy_after_abs_edit": route_seq_copy_after_edit("abs"), "split_bars_requant": route_split_bars(True), "split_bars_plain": route_split_bars(False)}


def q_indep(route, step, side, shape, wmax):
    def fn(ctx):
        origs, ders, equal = ROUTES[route](ctx, shape, wmax)
        so = [Snap(x) for x in origs]
        sd = [Snap(x) for x in ders]
        if equal:
            ctx.must("copy_equals_original", and_([a.equal_content(b) for a, b in zip(so, sd)]))
            ctx.must("library_eq_agrees", all((a == b) is True for a, b in zip(origs, ders)))
        touched, untouched, before = (ders, origs, so) if side == "derived" else (origs, ders, sd)
        # apply the step to the first touched object only; every other object (also sibling pieces) must stay put
        ctx.other = untouched[0]
        ok, ex = call(STEPS[step] if step in STEPS else ARG_STEPS[step], ctx, touched[0])
        ctx.note("step_exception", repr(ex) if not ok else None)
        others = untouched + touched[1:]
        bsnaps = before + ([Snap(x) for x in touched[1:]] if False else (sd[1:] if side == "derived" else so[1:]))
        after = [Snap(x) for x in others]
        ctx.must("untouched_unchanged", and_([a.same(b) for a, b in zip(bsnaps, after)]), disc=f"{route}/{step}/{side}")
        ctx.must("untouched_views_agree", and_([a.views_agree() for a in after]))
        return [x.obs() for x in after] + [ok]
    cl = ["untouched_unchanged", "untouched_views_agree"]
    return Query(f"{route}/{step}/{side}/{shape}/w{wmax}", fn, cl, desc=f"{step} on the {side} side after {route}")


def queries(tier, seed):
    qs = []
    wmax = 12 if tier == "quick" else 24
    for route in ROUTES:
        for step in STEPS:
            for side in ("derived", "original"):
                qs.append(q_indep(route, step, side, "n2", wmax))
    for route in ("seq_copy_rel", "seq_copy_abs", "seq_copy_both"):
        for side in ("derived", "original"):
            qs.append(q_indep(route, "scale_half_meta_other", side, "n2r", 8))
        for step in ("add_abs", "add_rel", "pad", "transpose"):
            for side in ("derived", "original"):
                qs.append(q_indep(route, step, side, "empty", 8))       # a fresh, still empty sequence and its copy
    if tier == "thorough":
        for route in ROUTES:
            for step in STEPS:
                for side in ("derived", "original"):
                    qs.append(q_indep(route, step, side, "n3", 12))
    return qs


REQUIRED = ["copy_equals_original", "library_eq_agrees"]
