"""C03 Stateful bar-by-bar tokenisation is equivalent to tokenising the whole piece."""
import itertools

from symx.run import Query
from symx.lib import *  # noqa
from scoda.elements.bar import Bar
from props.c01 import FLAGS, PLANS, Piece, bar_lines, mk

META = {
    "bounds": {
        "quick": "pieces of <=3 notes over 1-2 tracks spanning 2-4 bars (onsets symbolic multiples of 6/12/18/24 ticks; durations symbolic members of {6,12,24,36}; one note may cross a bar line), signature plans {none, 3/4, 3/4->5/8, 4/4->3/4, 3/8 (a 36-tick note fills the bar)}; velocities symbolic across two bins, empty bars included; real "
                 "sequences_split_bars, then EVERY composition of the bar list into consecutive call groups (<=8) threading one state "
                 "dictionary; 4 configurations incl. running values on/off, unfused track/value/velocity, velocity_bins 1/8; plus the "
                 "carried-clock lemma with an UNBOUNDED symbolic clock value",
        "thorough": "as quick with all 16 flag combinations at 8 velocity bins (+4 at 1-2 bins)",
    },
    "outside_claim": ["pieces longer than 4 bars / 3 notes", "chunks that are not whole bars", "custom step sizes", "tokeniser resolutions other than 12, 24, 48"],
    "stubs": ["np.digitize ite-sum", "int()/float() shadowed", "logging disabled", "find_minimal_distance ite-merged summary"],
}


def compositions(n):
    """all ways to cut range(n) into consecutive groups"""
    out = []
    for cuts in itertools.product([0, 1], repeat=n - 1):
        groups, cur = [], [0]
        for i, c in enumerate(cuts):
            if c:
                groups.append(cur)
                cur = []
            cur.append(i + 1)
        groups.append(cur)
        out.append(groups)
    return out


def notes_of(seqs):
    res = []
    for s in seqs:
        ea, da = abs_events(raw_abs(s)) if raw_abs(s) else ([], 0)
        got, unp = pair_notes(ea)
        # notes, onsets, durations, bar grid (markers) and total duration; signature events are not part of the claim
        res.append((sorted([(g.pitch, g.start, g.end, g.vel) for g in got]), unp,
                    [m.time for m in raw_abs(s) if m.message_type == INTERNAL], da))
    return res


def q_groups(name, fl, bins, build, plan, direct=False, bar_tokens=True, meta_track=0, whole_from_original=False):
    def fn(ctx):
        ntr, piece = build(ctx)
        tok = mk(fl, bins, ntr)
        seqs = piece.sequences()
        bars = Sequence.sequences_split_bars(seqs, meta_track)
        nb = len(bars[0])
        ctx.note("bars", nb)
        if nb > 4:
            ctx.assume(False)
        whole_in = [Bar.to_sequence([b.copy() for b in tr]) for tr in bars]
        if whole_from_original:
            whole_in = piece.sequences()       # the piece as the caller has it (it ends on a bar line)
        ok, whole_tokens = call(tok.tokenise, whole_in, insert_bar_token=bar_tokens)
        ctx.must("whole_piece_tokenises", ok, disc=None if ok else type(whole_tokens).__name__)
        if not ok:
            ctx.note("exception", repr(whole_tokens))
            return ["raised"]
        ref = notes_of(tok.detokenise(whole_tokens))
        bad = []
        all_at_zero = False
        for groups in compositions(nb):
            state = dict()
            toks = []
            okc = True
            for gi, g in enumerate(groups):
                if direct and len(g) == 1:
                    # hand the bars' own sequence objects to tokenise (as the repository's test does), after a reader
                    # has materialised their absolute view
                    chunk = [tr[g[0]].copy().sequence for tr in bars]
                    for c_ in chunk:
                        c_.get_sequence_duration()
                else:
                    chunk = [Bar.to_sequence([tr[i].copy() for i in g]) for tr in bars]
                o, t = call(tok.tokenise, chunk, state_dict=state, insert_bar_token=bar_tokens)
                if not o:
                    okc = False
                    bad.append((groups, "raised " + type(t).__name__))
                    break
                toks.extend(t)
            if not okc:
                continue
            got = notes_of(tok.detokenise(toks))
            if got != ref:
                bad.append((groups, "differs"))
        # classify: a call group whose last bar has every event on its first tick (the clock never leaves the bar start)
        for tr in bars:
            pass
        first_tick_only = []
        for i in range(nb):
            only0 = True
            for tr in bars:
                t = 0
                for m in raw_rel(tr[i].sequence):
                    if m.message_type == WAIT:
                        t = t + m.time
                    elif m.message_type in (ON, TS) and not (isinstance(t, int) and t == 0):
                        only0 = False
                # a bar that is padded by a trailing rest advances the clock through its cap
                last = raw_rel(tr[i].sequence)[-1] if raw_rel(tr[i].sequence) else None
                if last is not None and last.message_type == WAIT:
                    only0 = False
            first_tick_only.append(only0)
        disc = "bar_with_all_events_on_first_tick_and_no_rest" if any(first_tick_only[:-1]) else "other"
        ctx.note("groupings_that_differ", [str(b) for b in bad][:6])
        ctx.note("bars_with_all_events_on_first_tick", first_tick_only)
        ctx.must("every_grouping_equals_whole", not bad, disc=disc)
        # anchor: the whole-piece stream reproduces the notes of the bars it was made from (C01 oracle)
        conds = []
        for ti, tr in enumerate(bars):
            src = Bar.to_sequence([b.copy() for b in tr])
            ea, _ = abs_events(raw_abs(src))
            want, unp = pair_notes(ea)
            conds.append(multiset_eq([[g[0], g[1], g[2]] for g in ref[ti][0]], [[n.pitch, n.start, n.end] for n in want]))
        ctx.must("whole_stream_reproduces_input", and_(conds))
        return [whole_tokens, [str(b) for b in bad]]
    return Query(f"groups/{name}/{plan}/f{''.join(str(int(x)) for x in fl)}-b{bins}{'/direct' if direct else ''}{'' if bar_tokens else '/nobartokens'}{'/original-meta' + str(meta_track) if whole_from_original else ''}", fn,
                 ["whole_piece_tokenises", "every_grouping_equals_whole", "whole_stream_reproduces_input"],
                 desc=f"all groupings of the bars of piece {name}")


# ---- pieces
def piece_a(plan):
    def b(ctx):
        p = Piece(1, plan)
        vals = [12, 24, 36]
        k = ctx.int("k", 0, 8)
        p.add(0, 60, 12 * k, vals[ctx.int("i1", 0, 2)], ctx.int("v1", 1, 40))
        k2 = ctx.int("k2", 0, 12)
        p.add(0, 62, 12 * k + 36 + 6 * k2, 12, ctx.int("v2", 20, 30))
        return 1, p
    return b


def piece_b(plan):
    def b(ctx):
        p = Piece(2, plan)
        k = ctx.int("k", 0, 3)
        p.add(0, 60, 18 * k, 24, ctx.int("v1", 1, 40))
        k2 = ctx.int("k2", 0, 3)
        p.add(1, 61, 24 * k2, [6, 12, 24][ctx.int("i2", 0, 2)], ctx.int("v2", 20, 30))
        p.add(1, 62, 24 * k2 + 24 + 12 * ctx.int("g", 0, 6), 12, 64)
        return 2, p
    return b


def piece_c(plan):
    """bars whose only events sit on the first tick; an empty bar in between"""
    def b(ctx):
        p = Piece(1, plan)
        lines = [0] + bar_lines(plan, 400)
        bsel = ctx.int("bar", 0, 1)
        start = ite(eq(bsel, 0), lines[0], lines[1])
        p.add(0, 60, start, [12, 24, 36][ctx.int("i1", 0, 2)], ctx.int("v1", 1, 40))
        p.add(0, 62, lines[2] + 6 * ctx.int("k", 0, 6), 12, 64)
        return 1, p
    return b


def piece_e(plan):
    """two tracks, signatures on the SECOND track, a first-track note on the bar line of the signature change,
    the piece ends on a bar line"""
    def b(ctx):
        p = Piece(2, plan, meta_track=1)
        lines = [0] + bar_lines(plan, 400)
        p.add(0, 60, lines[1], 12, ctx.int("v1", 1, 40))
        p.add(1, 61, 12 * ctx.int("k", 0, 5), 12, 64)
        p.add(0, 62, lines[1] + 12 * ctx.int("j", 1, 4), 12, 64)
        p.cap = lines[3]
        return 2, p
    return b


def piece_f(plan):
    """as piece_e, but the first track sounds first (it wins onset ties) and the first signature arrives late"""
    def b(ctx):
        p = Piece(2, plan, meta_track=1)
        lines = [0] + bar_lines(plan, 400)
        p.add(0, 60, 12 * ctx.int("k", 0, 2), 12, ctx.int("v1", 1, 40))
        p.add(0, 62, lines[1], 12, 64)
        p.add(1, 61, 24 + 12 * ctx.int("j", 0, 8), 12, 64)
        p.cap = lines[3]
        return 2, p
    return b


def q_split_chunks(fl, bins):
    """whole-bar chunks cut with Sequence.split (they do not re-announce the signature); a stray signature mid-bar is
    skipped by every call and must not leak into the carried state"""
    def fn(ctx):
        tok = mk(fl, bins, 1)
        nb = 4
        k = ctx.int("k", 0, 7)
        j = ctx.int("j", 0, 3)
        stray = 12 * ctx.int("s", 1, 7)

        def piece():
            ms = [ts(3, 4, time=stray), on(0, 60, 70, time=12 * k), off(0, 60, time=12 * k + 12),
                  on(0, 62, 70, time=96 * 2 + 24 * j), off(0, 62, time=96 * 2 + 24 * j + 24),
                  Message(message_type=INTERNAL, channel=0, time=96 * nb)]
            return abs_sequence(ms)
        ok, whole = call(tok.tokenise, [piece()])
        ctx.must("whole_piece_tokenises", ok)
        if not ok:
            return ["raised"]
        ref = notes_of(tok.detokenise(whole))
        bad = []
        for groups in compositions(nb):
            chunks = piece().split([96 * len(g) for g in groups[:-1]])
            state, toks, okc = dict(), [], True
            for c_ in chunks:
                o, t = call(tok.tokenise, [c_], state_dict=state)
                if not o:
                    okc = False
                    bad.append((groups, "raised " + type(t).__name__))
                    break
                toks.extend(t)
            if okc and notes_of(tok.detokenise(toks)) != ref:
                bad.append((groups, "differs"))
        ctx.note("groupings_that_differ", [str(b) for b in bad][:6])
        ctx.must("every_grouping_equals_whole", not bad, disc="split_chunks")
        return [whole, [str(b) for b in bad]]
    return Query(f"split_chunks/f{''.join(str(int(x)) for x in fl)}-b{bins}", fn, ["whole_piece_tokenises", "every_grouping_equals_whole"],
                 desc="chunks cut with Sequence.split, stray mid-bar signature")


def q_split_chunks_ppqn(fl, bins, ppqn):
    """a tokeniser with its own resolution: the signature is announced once at the start, chunks cut with Sequence.split do
    not repeat it, so every later call rebuilds the bar length from the carried signature"""
    u = ppqn // 2

    def fn(ctx):
        from props.c01 import Tokeniser
        tok = Tokeniser(ppqn=ppqn, num_tracks=1, pitch_range=(60, 62), velocity_bins=bins, note_values=[u, 2 * u, 4 * u],
                        flag_running_values=fl[0],
                        flag_fuse_track=fl[1], flag_fuse_value=fl[2], flag_fuse_velocity=fl[3])
        nb = 3
        bar = 4 * ppqn          # notes last 1-2 units of ppqn/2 and never cross a bar line (split would cut them)
        k = ctx.int("k", 0, 7)
        j = ctx.int("j", 0, 6)

        def piece():
            ms = [ts(4, 4, time=0), on(0, 60, 70, time=u * k), off(0, 60, time=u * k + u),
                  on(0, 62, 70, time=bar + u * j), off(0, 62, time=bar + u * j + 2 * u),
                  on(0, 61, 70, time=2 * bar + u * j), off(0, 61, time=2 * bar + u * j + 2 * u),
                  Message(message_type=INTERNAL, channel=0, time=bar * nb)]
            return abs_sequence(ms)
        ok, whole = call(tok.tokenise, [piece()])
        ctx.must("whole_piece_tokenises", ok)
        if not ok:
            return ["raised"]
        ref = notes_of(tok.detokenise(whole))
        bad = []
        for groups in compositions(nb):
            chunks = piece().split([bar * len(g) for g in groups[:-1]])
            state, toks, okc = dict(), [], True
            for c_ in chunks:
                o, t = call(tok.tokenise, [c_], state_dict=state)
                if not o:
                    okc = False
                    bad.append((groups, "raised " + type(t).__name__))
                    break
                toks.extend(t)
            if okc and notes_of(tok.detokenise(toks)) != ref:
                bad.append((groups, "differs"))
        ctx.note("groupings_that_differ", [str(b) for b in bad][:6])
        ctx.must("every_grouping_equals_whole", not bad, disc="split_chunks_ppqn")
        return [whole, [str(b) for b in bad]]
    return Query(f"split_chunks_ppqn{ppqn}/f{''.join(str(int(x)) for x in fl)}-b{bins}", fn,
                 ["whole_piece_tokenises", "every_grouping_equals_whole"],
                 desc=f"tokeniser resolution {ppqn}, chunks cut with Sequence.split")


def q_clock_lemma(fl, bins):
    """the carried absolute clock never leaks into the tokens: same chunk from cur_time = T0 (unbounded) and from 0"""
    def fn(ctx):
        tok = mk(fl, bins, 1)
        t0 = ctx.int("T0")
        ctx.assume(t0 >= 0)
        k = ctx.int("k", 0, 30)
        i1 = ctx.int("i1", 0, 2)

        def chunk():
            p = Piece(1, "none")
            p.add(0, 60, 2 * k, [12, 24, 36][i1], 64)
            p.cap = 96
            return p.sequences()
        s1 = {"cur_time": 0, "cur_time_bar": 0}
        s2 = {"cur_time": t0, "cur_time_bar": 0}
        a = tok.tokenise(chunk(), state_dict=s1)
        b = tok.tokenise(chunk(), state_dict=s2)
        ctx.must("tokens_independent_of_carried_clock", a == b)
        ctx.must("clock_advances_equally", eq(s2["cur_time"] - t0, s1["cur_time"]))
        ctx.must("other_state_equal", all(eq(s1[k_], s2[k_]) is True or bool(eq(s1[k_], s2[k_])) for k_ in s1 if k_ != "cur_time"))
        return [a, b]
    return Query(f"clock_lemma/f{''.join(str(int(x)) for x in fl)}-b{bins}", fn,
                 ["tokens_independent_of_carried_clock", "clock_advances_equally", "other_state_equal"],
                 desc="one chunk from an arbitrary carried clock value vs from 0")


def queries(tier, seed):
    qs = []
    cfgs = [(FLAGS[0], 1), (FLAGS[15], 8), (FLAGS[2], 8), (FLAGS[5], 8)]
    if tier == "thorough":
        cfgs = [(fl, 8) for fl in FLAGS] + [(FLAGS[0], 1), (FLAGS[5], 1), (FLAGS[10], 2), (FLAGS[15], 1)]
    for fl, bins in cfgs:
        qs.append(q_groups("a", fl, bins, piece_a("none"), "none"))
        qs.append(q_groups("b", fl, bins, piece_b("44-34"), "44-34", direct=(fl[1] != fl[2])))
        qs.append(q_clock_lemma(fl, bins))
    for plan in ("34-58", "44-34", "34"):
        qs.append(q_groups("a", FLAGS[0], 1, piece_a(plan), plan))
        qs.append(q_groups("c", FLAGS[15], 8, piece_c(plan), plan))
    qs.append(q_groups("c", FLAGS[0], 1, piece_c("none"), "none"))
    qs.append(q_groups("e", FLAGS[0], 1, piece_e("44-34"), "44-34", meta_track=1, whole_from_original=True))
    qs.append(q_groups("e", FLAGS[15], 8, piece_e("34-58"), "34-58", meta_track=1, whole_from_original=True))
    qs.append(q_groups("f", FLAGS[0], 1, piece_f("late34"), "late34", meta_track=1, whole_from_original=True))
    qs.append(q_split_chunks(FLAGS[0], 1))
    qs.append(q_split_chunks(FLAGS[15], 8))
    qs.append(q_split_chunks_ppqn(FLAGS[0], 1, 48))
    qs.append(q_split_chunks_ppqn(FLAGS[15], 8, 12))
    qs.append(q_groups("a", FLAGS[0], 1, piece_a("34-38-34"), "34-38-34"))     # signature history A -> B -> A
    qs.append(q_groups("a", FLAGS[15], 8, piece_a("none"), "none", bar_tokens=False))
    qs.append(q_groups("c", FLAGS[0], 1, piece_c("34"), "34", bar_tokens=False))
    qs.append(q_groups("c", FLAGS[0], 1, piece_c("38"), "38"))      # a 36-tick note fills a 3/8 bar completely
    qs.append(q_groups("c", FLAGS[15], 8, piece_c("38"), "38"))
    return qs
