"""C09 Bar splitting follows the time signatures and conserves the music."""
from symx.run import Query
from symx.lib import *  # noqa
from scoda.misc.util import get_default_note_values

META = {
    "bounds": {
        "quick": "1-2 tracks (second track: one note, empty, or longer than the first), meta track with <=2 notes; signature plans "
                 "{none, 3/4, 6/8->2/4, 3/4->5/8, 4/4->3/4 with key changes, 3/16->7/8} on bar boundaries (concrete case split); note onsets "
                 "symbolic 0..160, durations symbolic 1..120 (re-quantisation off) so crossing 0, 1 or 2 bar lines is the solver's "
                 "choice; re-quantisation on: one note with duration a symbolic member of the default note values, onset symbolic",
        "thorough": "as quick with 2 symbolic notes under re-quantisation and onsets up to 250",
    },
    "outside_claim": ["signature changes off the bar grid", "more than 2 tracks / 3 notes", "notes whose duration is not an allowed "
                      "note value under re-quantisation (the property's 'only boundary-cut fragments may shrink' presupposes quantised input)"],
    "stubs": ["int() shadowed", "logging disabled", "find_minimal_distance ite-merged summary"],
}

# signature plans: list of (tick, num, den) on bar boundaries, and key plans (tick, key)
PLANS = {
    "none": ([], []),
    "34": ([(0, 3, 4)], [(0, KEYS[1])]),
    "68-24": ([(0, 6, 8), (144, 2, 4)], []),
    "34-58": ([(0, 3, 4), (72, 5, 8)], [(72, KEYS[9])]),
    "44-34k": ([(0, 4, 4), (96, 3, 4)], [(0, KEYS[2]), (96, KEYS[12])]),
    "316-78": ([(0, 3, 16), (36, 7, 8)], [(36, KEYS[6])]),
    "44-keys": ([(0, 4, 4)], [(0, KEYS[0]), (96, KEYS[1]), (192, KEYS[2])]),
    "keys-late": ([(0, 3, 4), (144, 4, 4)], [(72, KEYS[5])]),
}


def grid(plan, nbars):
    """-> list of (start, length, num, den, key) for nbars bars, from the concrete plan"""
    tss, kss = PLANS[plan]
    out = []
    t = 0
    num, den, key = 4, 4, None
    for _ in range(nbars):
        for (tt, n, d) in tss:
            if tt <= t:
                num, den = n, d
        for (tt, k) in kss:
            if tt <= t:
                key = k
        ln = 24 * 4 * num // den
        out.append((t, ln, num, den, key))
        t += ln
    return out


def build_track(ctx, prefix, nnotes, ch, plan=None, smax=160, dmax=120, allowed=False, tail=True, multich=False, same_pitch=False):
    """absolute messages of one track: symbolic notes (+ the plan's signature / key events for the meta track)"""
    msgs, notes = [], []
    if plan is not None:
        tss, kss = PLANS[plan]
        for (tt, n, d) in tss:
            msgs.append(ts(n, d, time=tt, ch=ch))
        for (tt, k) in kss:
            msgs.append(ks(k, time=tt, ch=ch))
    vals = get_default_note_values()
    for i in range(nnotes):
        st = ctx.int(f"{prefix}s{i}", 0, smax)
        if allowed:
            di = ctx.int(f"{prefix}di{i}", 0, len(vals) - 1)
            du = vals[di]
        else:
            du = ctx.int(f"{prefix}d{i}", 1, dmax)
        p = 60 if same_pitch else 60 + i
        v = ctx.int(f"{prefix}v{i}", 1, 127)
        c = ctx.int(f"{prefix}c{i}", 0, 1) if multich else ch
        notes.append(NoteV(c, p, st, st + du, v))
        msgs.append(on(c, p, v, time=st))
        msgs.append(off(c, p, time=st + du))
    if same_pitch:
        ctx.assume(distinct_keys_or_disjoint(ctx, notes))
    return msgs, notes


def q_bars(name, plan, n0, n1, requant, smax, dmax, multich=False, same_pitch=False):
    def fn(ctx):
        m0, notes0 = build_track(ctx, "a", n0, 0, plan=plan, smax=smax, dmax=dmax, allowed=requant, multich=multich,
                                 same_pitch=same_pitch)
        tracks = [abs_sequence(m0)]
        all_notes = [notes0]
        if n1 is not None:
            if n1 == "empty":
                tracks.append(Sequence())
                all_notes.append([])
            elif n1 == "long":
                m1, notes1 = build_track(ctx, "b", 1, 1, smax=smax + 100, dmax=dmax, allowed=requant)
                tracks.append(abs_sequence(m1))
                all_notes.append(notes1)
            else:
                m1, notes1 = build_track(ctx, "b", n1, 1, smax=smax, dmax=dmax, allowed=requant)
                tracks.append(abs_sequence(m1))
                all_notes.append(notes1)
        tau = ctx.int("tau", 0, smax + dmax + 200)
        before = []
        durs = []
        for tr in tracks:
            ea, da = abs_events(raw_abs(tr)) if raw_abs(tr) else ([], 0)
            before.append([Ev(e.t, e.m.copy()) for e in ea])
            durs.append(da)
        bars = Sequence.sequences_split_bars(tracks, 0, quantise_note_lengths=requant)
        nb = len(bars[0])
        ctx.must("equal_bar_counts", all(len(b) == nb for b in bars) and len(bars) == len(tracks))
        g = grid(plan, nb)
        dmaxv = 0
        for d in durs:
            dmaxv = ite(d > dmaxv, d, dmaxv)
        end = g[-1][0] + g[-1][1]
        ctx.must("covers_longest_track", dmaxv <= end)
        # an event sitting exactly on the last tick of the longest track lives in a bar of its own (it must not be lost, C08)
        on_last_start = or_([eq(e.t, g[-1][0]) for evs_ in before for e in evs_])
        ctx.must("less_than_one_bar_spare", or_(g[-1][0] < dmaxv, nb == 1, on_last_start))
        ok_len, ok_sig = [], []
        outs = []
        for ti, trb in enumerate(bars):
            evs = []
            for k, bar in enumerate(trb[:nb]):
                st, ln, num, den, key = g[k]
                er, dr = rel_events(raw_rel(bar.sequence))
                ok_len.append(eq(dr, ln))
                ok_sig.append(bar.time_signature_numerator == num and bar.time_signature_denominator == den
                              and bar.key_signature == key)
                tsev = [e for e in er if e.kind == TS]
                ok_sig.append(len(tsev) == 1 and and_(eq(tsev[0].m.numerator, num), eq(tsev[0].m.denominator, den), eq(tsev[0].t, 0)))
                evs.extend([Ev(e.t + st, e.m) for e in er])
            outs.append(evs)
        ctx.must("bar_lengths_follow_signatures", and_(ok_len))
        ctx.must("bars_carry_signature_and_key", and_(ok_sig))
        for ti, evs in enumerate(outs):
            keys = keys_of(before[ti])
            if not requant:
                ctx.must("roll_conserved", roll_equal(before[ti], evs, tau, keys=keys), disc=f"track{ti}")
            else:
                ctx.must("roll_subset", and_([implies(sounding_count(evs, c, p, tau) >= 1,
                                                      sounding_count(before[ti], c, p, tau) >= 1) for c, p in keys]),
                         disc=f"track{ti}")
                # fragments that are not cut by a bar line keep onset and duration; every fragment keeps its onset
                frags, unp = pair_notes(evs)
                conds = [unp == 0]
                for n in all_notes[ti]:
                    for k in range(nb):
                        st, ln = g[k][0], g[k][1]
                        fs = ite(n.start > st, n.start, st)
                        fe = ite(n.end < st + ln, n.end, st + ln)
                        exists = fs < fe
                        uncut = and_(n.start >= st, n.end <= st + ln)
                        present = or_([and_(eq(f.pitch, n.pitch), eq(f.start, fs), eq(f.end, fe)) for f in frags])
                        conds.append(implies(and_(exists, uncut), present))
                conds.append(and_([or_([and_(eq(f.pitch, n.pitch), or_(eq(f.start, n.start), or_([eq(f.start, gg[0]) for gg in g])),
                                             f.start >= n.start, f.end <= n.end) for n in all_notes[ti]]) for f in frags]))
                ctx.must("only_cut_fragments_shrink", and_(conds), disc=f"track{ti}")
            ctx.must("fragments_wellformed", wellformed_alternation(evs), disc=f"track{ti}")
        after_ok = []
        for ti, tr in enumerate(tracks):
            ea, da = abs_events(raw_abs(tr)) if raw_abs(tr) else ([], 0)
            er, dr = rel_events(raw_rel(tr))
            after_ok.append(and_(events_eq_multiset_timed(ea, before[ti]), eq(da, durs[ti]),
                                 events_eq_multiset_timed(er, before[ti]), eq(dr, durs[ti])))
        ctx.must("inputs_unchanged", and_(after_ok))
        return [[obs_rel(raw_rel(b.sequence)) for b in trb] for trb in bars]
    cl = ["equal_bar_counts", "covers_longest_track", "less_than_one_bar_spare", "bar_lengths_follow_signatures",
          "bars_carry_signature_and_key", "fragments_wellformed", "inputs_unchanged"]
    cl.append("roll_subset" if requant else "roll_conserved")
    if requant:
        cl.append("only_cut_fragments_shrink")
    return Query(f"{name}/{plan}/{'requant' if requant else 'plain'}/s{smax}d{dmax}", fn, cl,
                 desc=f"sequences_split_bars, plan {plan}, tracks {n0}+{n1}, requantise={requant}")


def q_cut_tail_then_same_pitch():
    def fn(ctx):
        vals = get_default_note_values()
        s0 = ctx.int("s0", 84, 95)
        d0 = vals[ctx.int("di0", 0, len(vals) - 1)]
        s1 = ctx.int("s1", 126, 150)
        d1 = vals[ctx.int("di1", 0, len(vals) - 1)]
        v = ctx.int("v", 1, 127)
        notes = [NoteV(0, 60, s0, s0 + d0, v), NoteV(0, 60, s1, s1 + d1, v)]
        ctx.assume(distinct_keys_or_disjoint(ctx, notes))
        tau = ctx.int("tau", 0, 400)
        src = abs_sequence([on(0, 60, v, time=s0), off(0, 60, time=s0 + d0), on(0, 60, v, time=s1), off(0, 60, time=s1 + d1)])
        before = [Ev(m.time, m.copy()) for m in raw_abs(src)]
        bars = Sequence.sequences_split_bars([src], 0, quantise_note_lengths=True)
        evs = []
        for k, bar in enumerate(bars[0]):
            er, dr = rel_events(raw_rel(bar.sequence))
            evs.extend([Ev(e.t + 96 * k, e.m) for e in er])
        ctx.must("roll_subset", implies(sounding_count(evs, 0, 60, tau) >= 1, sounding_count(before, 0, 60, tau) >= 1),
                 disc="cut tail")
        ctx.must("fragments_wellformed", wellformed_alternation(evs), disc="cut tail")
        return [obs_events(evs)]
    return Query("cut_tail_then_same_pitch/requant", fn, ["roll_subset", "fragments_wellformed"],
                 desc="a note cut at the bar line, the same pitch struck again later in that bar, re-quantisation on")


def queries(tier, seed):
    qs = []
    for plan in PLANS:
        qs.append(q_bars("t1n1", plan, 1, None, False, 160, 120))
        qs.append(q_bars("t2n1", plan, 1, 1, False, 100, 100))
        qs.append(q_bars("t1n1", plan, 1, None, True, 160 if tier == "quick" else 250, 0))
    qs.append(q_bars("t1n2", "34-58", 2, None, False, 100, 90))
    qs.append(q_bars("t1n2mc", "34", 2, None, False, 80, 80, multich=True))     # one track carrying two channels
    qs.append(q_bars("t2empty", "34", 1, "empty", False, 100, 100))
    qs.append(q_bars("t1n2samepitch", "none", 2, None, True, 60, 0, same_pitch=True))
    qs.append(q_cut_tail_then_same_pitch())
    qs.append(q_bars("t2long", "68-24", 1, "long", False, 60, 60))
    qs.append(q_bars("t2n1", "44-34k", 1, 1, True, 40 if tier == "quick" else 100, 0))
    if tier == "thorough":
        qs.append(q_bars("t1n2", "44-34k", 2, None, False, 160, 120))
        qs.append(q_bars("t1n2", "34-58", 2, None, True, 120, 0))
        qs.append(q_bars("t2long", "none", 2, "long", False, 100, 100))
    return qs
