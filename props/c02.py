"""C02 Vocabulary is closed under tokenise; encode and decode are inverse bijections."""
import itertools

from symx.run import Query
from symx.lib import *  # noqa
from scoda.exceptions.tokenisation_exception import TokenisationException
from scoda.tokenisation.notelike_tokenisation import MultiTrackLargeVocabularyNotelikeTokeniser as Tokeniser

META = {
    "bounds": {
        "quick": "configurations: all 16 flag combinations x velocity_bins {1,2,5} (+ 64 and 80, where bin values saturate at 127) x num_tracks {1,2} x pitch range (60,62) with the "
                 "default note values and step sizes (+ note values [6,12,24] for 4 flag combinations); vocabulary side: a symbolic id "
                 "over the whole vocabulary of every configuration (solver-driven enumeration, complete); emission side: one symbolic "
                 "note (pitch in range, duration a symbolic member of the note values, velocity 1..127 merged per bin), a second note "
                 "for running values, a symbolic rest 0..120 and a time signature with symbolic numerator 1..20 over {2,4,8,16}",
        "thorough": "as quick plus velocity_bins 8, the default pitch range (21,108) for 4 flag combinations, 3 tracks",
    },
    "outside_claim": ["custom step_sizes (beyond one list with a step above the bar length), time_signature_range", "ppqn other than 24 and 4", "more than 2 notes in the emission harness"],
    "stubs": ["np.digitize ite-sum (validated exhaustively against numpy for the bins lists used)", "int()/float() shadowed",
              "logging disabled"],
}

FLAGS = list(itertools.product([True, False], repeat=4))   # running_values, fuse_track, fuse_value, fuse_velocity


def mk(cfg):
    fl, bins, ntr, prange, nv = cfg
    return Tokeniser(num_tracks=ntr, pitch_range=prange, velocity_bins=bins, note_values=list(nv) if nv else None,
                     flag_running_values=fl[0], flag_fuse_track=fl[1], flag_fuse_value=fl[2], flag_fuse_velocity=fl[3])


def cfg_name(cfg):
    fl, bins, ntr, prange, nv = cfg
    return f"f{''.join(str(int(x)) for x in fl)}-b{bins}-t{ntr}-p{prange[0]}_{prange[1]}-{'nvdef' if not nv else 'nv' + '_'.join(map(str, nv))}"


def q_vocab(cfg, steps=None, ppqn=None):
    def fn(ctx):
        tok = mk(cfg)
        if steps or ppqn:
            fl, bins, ntr, prange, nv = cfg
            tok = Tokeniser(ppqn=ppqn, num_tracks=ntr, pitch_range=prange, velocity_bins=bins, note_values=list(nv) if nv else None,
                            step_sizes=list(steps) if steps else None,
                            flag_running_values=fl[0], flag_fuse_track=fl[1], flag_fuse_value=fl[2], flag_fuse_velocity=fl[3])
        size = tok.dictionary_size
        ctx.must("size_matches_entries", size == len(tok.dictionary) == len(tok.inverse_dictionary))
        ctx.must("ids_are_0_to_size_minus_1", sorted(tok.dictionary.values()) == list(range(size)))
        ctx.must("no_malformed_keys", not any(k.endswith("-") or "." in k or " " in k for k in tok.dictionary))
        i = ctx.int("id", 0, max(size - 1, 0))
        ok, t = call(tok.decode, [i])
        ctx.must("decode_defined", ok)
        if not ok:
            return ["undecodable"]
        ok2, back = call(tok.encode, t)
        ctx.must("encode_decode_identity", ok2 and len(back) == 1 and eq(back[0], i))
        ok3, seqs = call(tok.detokenise, t)
        ctx.note("token", t)
        ctx.must("detokenise_accepts_member", ok3, disc=None if ok3 else type(seqs).__name__)
        ok4, info = call(tok.get_info, t)
        ctx.must("get_info_accepts_member", ok4)
        return [t]
    return Query(f"vocab/{cfg_name(cfg)}{'-steps' + '_'.join(map(str, steps)) if steps else ''}{'-ppqn' + str(ppqn) if ppqn else ''}", fn,
                 ["size_matches_entries", "ids_are_0_to_size_minus_1", "no_malformed_keys", "decode_defined",
                  "encode_decode_identity", "detokenise_accepts_member", "get_info_accepts_member"],
                 desc="symbolic id over the whole vocabulary")


def _emit_check(ctx, tok, seqs, tag):
    ok, tokens = call(tok.tokenise, seqs)
    if not ok:
        ctx.note("rejected", type(tokens).__name__)
        ctx.must("rejects_only_with_tokenisation_exception", isinstance(tokens, TokenisationException),
                 disc=type(tokens).__name__)
        return ["rejected", type(tokens).__name__]
    missing = [t for t in tokens if t not in tok.dictionary]
    ctx.note("tokens", tokens)
    ctx.must("emitted_tokens_in_vocabulary", not missing, disc=tag)
    ok2, ids = call(tok.encode, tokens)
    ctx.must("encode_succeeds_on_emitted", ok2, disc=tag)
    if ok2:
        ctx.must("decode_inverts_encode", tok.decode(ids) == tokens, disc=tag)
    return [tokens]


def q_emit_note(cfg):
    def fn(ctx):
        tok = mk(cfg)
        ntr = cfg[2]
        tr = ctx.int("track", 0, ntr - 1) if ntr > 1 else 0
        p = ctx.int("pitch", cfg[3][0], cfg[3][1])
        vi = ctx.int("value_index", 0, len(tok.note_values) - 1)
        dur = tok.note_values[vi]
        v = ctx.int("velocity", 1, 127)
        seqs = []
        for k in range(ntr):
            is_k = eq(tr, k) if ntr > 1 else True
            if bool(is_k):
                # built through the absolute view on a foreign channel, both views current when tokenise renumbers it
                sq = abs_sequence([on(9, p, v, time=0), off(9, p, time=dur)])
                sq.rel
                seqs.append(sq)
            else:
                seqs.append(rel_sequence([wait(dur)]))
        return _emit_check(ctx, tok, seqs, "note")
    return Query(f"emit_note/{cfg_name(cfg)}", fn, ["emitted_tokens_in_vocabulary", "encode_succeeds_on_emitted", "decode_inverts_encode"],
                 desc="one symbolic note through tokenise")


def q_emit_note_without_velocity(cfg):
    """a note-on that carries no velocity: whether tokenise accepts it is not claimed, but what it emits is vocabulary"""
    def fn(ctx):
        tok = mk(cfg)
        p = ctx.int("pitch", cfg[3][0], cfg[3][1])
        dur = tok.note_values[ctx.int("value_index", 0, len(tok.note_values) - 1)]
        m = on(0, p, 1, time=0)
        m.velocity = None
        ok, tokens = call(tok.tokenise, [abs_sequence([m, off(0, p, time=dur)])])
        ctx.note("accepted", ok)
        if ok:
            ctx.must("emitted_tokens_in_vocabulary", not [t for t in tokens if t not in tok.dictionary], disc="no_velocity")
            ctx.must("encode_succeeds_on_emitted", call(tok.encode, tokens)[0], disc="no_velocity")
        return [ok, tokens if ok else type(tokens).__name__]
    return Query(f"emit_note_without_velocity/{cfg_name(cfg)}", fn, [], desc="note-on without a velocity")


def q_emit_running(cfg):
    def fn(ctx):
        tok = mk(cfg)
        ntr = cfg[2]
        nv = tok.note_values
        i1 = ctx.int("value_index1", 0, len(nv) - 1)
        i2 = ctx.int("value_index2", 0, len(nv) - 1)
        v1 = ctx.int("velocity1", 1, 127)
        v2 = ctx.int("velocity2", 1, 127)
        d1, d2 = nv[i1], nv[i2]
        t2 = ctx.int("second_track", 0, ntr - 1) if ntr > 1 else 0
        p = cfg[3][0]
        p2 = min(p + 1, cfg[3][1])
        first = [on(0, p, v1), wait(d1), off(0, p)]
        second = [on(0, p2, v2), wait(d2), off(0, p2)]
        if ntr == 1 or bool(eq(t2, 0)):
            seqs = [rel_sequence(first + second)] + [rel_sequence([wait(d1)]) for _ in range(ntr - 1)]
        else:
            seqs = [rel_sequence(first), rel_sequence([wait(d1)] + second)]
        return _emit_check(ctx, tok, seqs, "running")
    return Query(f"emit_running/{cfg_name(cfg)}", fn, ["emitted_tokens_in_vocabulary", "encode_succeeds_on_emitted", "decode_inverts_encode"],
                 desc="two symbolic notes (running values) through tokenise")


def q_emit_rest(cfg, rmax):
    def fn(ctx):
        tok = mk(cfg)
        r = ctx.int("rest", 0, rmax)
        r2 = ctx.int("rest2", 0, 30)
        p = cfg[3][0]
        msgs = [wait(r), on(0, p, 64), wait(12), off(0, p), wait(r2), on(0, p, 64), wait(12), off(0, p)]
        seqs = [rel_sequence(msgs)] + [rel_sequence([wait(r)]) for _ in range(cfg[2] - 1)]
        return _emit_check(ctx, tok, seqs, "rest")
    return Query(f"emit_rest/{cfg_name(cfg)}/r{rmax}", fn, ["emitted_tokens_in_vocabulary"], desc="symbolic rests through tokenise")


def q_emit_ts(cfg, den):
    def fn(ctx):
        tok = mk(cfg)
        n = ctx.int("numerator", 1, 20)
        p = cfg[3][0]
        msgs = [ts(n, den), on(0, p, 64), wait(12), off(0, p)]
        seqs = [rel_sequence(msgs)] + [rel_sequence([wait(12)]) for _ in range(cfg[2] - 1)]
        return _emit_check(ctx, tok, seqs, "ts")
    return Query(f"emit_ts/{cfg_name(cfg)}/den{den}", fn, ["rejects_only_with_tokenisation_exception"],
                 desc=f"time signature n/{den} with symbolic n through tokenise")


def q_two_instances(fl):
    """vocabularies are per instance: a tokeniser built after another one with a different time-signature range"""
    def fn(ctx):
        first = mk((fl, 1, 1, (60, 62), None))
        second = Tokeniser(num_tracks=1, pitch_range=(60, 62), time_signature_range=(1, 24), flag_running_values=fl[0],
                           flag_fuse_track=fl[1], flag_fuse_value=fl[2], flag_fuse_velocity=fl[3])
        want = {f"tsg_{k:02}_08" for k in range(1, 25)}
        got = {t for t in second.dictionary if t.startswith("tsg_")}
        ctx.must("second_instance_has_its_own_signature_tokens", got == want)
        ctx.must("second_instance_size", second.dictionary_size == len(second.dictionary) == len(first.dictionary) + 24 - 15)
        n = ctx.int("numerator", 1, 30)
        seqs = [rel_sequence([ts(n, 8), on(0, 60, 64), wait(12), off(0, 60)])]
        ok, tokens = call(second.tokenise, seqs)
        if ok:
            ctx.must("emitted_tokens_in_vocabulary", all(t in second.dictionary for t in tokens), disc="second_instance")
        else:
            ctx.must("rejects_only_with_tokenisation_exception", isinstance(tokens, TokenisationException), disc=type(tokens).__name__)
        return [ok]
    return Query(f"two_instances/f{''.join(str(int(x)) for x in fl)}", fn,
                 ["second_instance_has_its_own_signature_tokens", "second_instance_size"],
                 desc="a second tokeniser with time_signature_range (1,24) built after a default one")


REQUIRED = ["emitted_tokens_in_vocabulary", "rejects_only_with_tokenisation_exception"]


def configs(tier):
    cs = []
    for fl in FLAGS:
        for bins in ((1, 2, 5) if tier == "quick" else (1, 2, 5, 8)):
            for ntr in (1, 2):
                cs.append((fl, bins, ntr, (60, 62), None))
    for fl in (FLAGS[0], FLAGS[5], FLAGS[10], FLAGS[15]):
        cs.append((fl, 2, 1, (60, 61), (6, 12, 24)))
    # many bins: the bin values saturate at 127 (several bins share one value)
    cs.append((FLAGS[0], 64, 1, (60, 60), (12,)))
    cs.append((FLAGS[7], 80, 1, (60, 60), (12,)))
    if tier == "thorough":
        for fl in (FLAGS[0], FLAGS[7], FLAGS[8], FLAGS[15]):
            cs.append((fl, 2, 1, (21, 108), None))
            cs.append((fl, 1, 3, (60, 61), None))
    return cs


def preflight(ctl, tier, seed):
    import numpy as np
    from symx import shims
    from scoda.misc.util import get_velocity_bins
    lists = [[int(b) for b in get_velocity_bins(velocity_bins=k)] for k in (1, 2, 5, 8)]
    lists += [get_velocity_bins(velocity_bins=k) for k in (1, 2, 5, 8)]
    return {"digitize_shim_validated_cases": shims.validate_digitize(np, lists)}


def queries(tier, seed):
    qs = []
    for cfg in configs(tier):
        qs.append(q_vocab(cfg))
        qs.append(q_emit_note(cfg))
        if cfg[0][0] and not all(cfg[0][1:]):
            qs.append(q_emit_running(cfg))
    base = (FLAGS[0], 1, 1, (60, 62), None)
    two = (FLAGS[15], 2, 2, (60, 62), None)
    qs.append(q_emit_rest(base, 120))
    qs.append(q_emit_rest(two, 60))
    for den in (2, 4, 8, 16):
        qs.append(q_emit_ts(base, den))
    qs.append(q_emit_ts(two, 4))
    # rest tokens longer than the bar in force: a step size above 4 * ppqn, or a coarse tokeniser resolution
    qs.append(q_vocab((FLAGS[0], 1, 1, (60, 60), (12,)), steps=(6, 24, 120)))
    qs.append(q_vocab((FLAGS[15], 2, 1, (60, 60), (12,)), ppqn=4))
    # a bin count whose top bin value lies below 127
    qs.append(q_emit_note_without_velocity((FLAGS[0], 15, 1, (60, 61), (12,))))
    qs.append(q_emit_note_without_velocity((FLAGS[15], 15, 1, (60, 61), (12,))))
    qs.append(q_two_instances(FLAGS[0]))
    qs.append(q_two_instances(FLAGS[15]))
    return qs
