"""C01 Tokenise, encode, decode, detokenise reproduces every valid piece exactly."""
import itertools

from symx.run import Query
from symx.lib import *  # noqa
from scoda.tokenisation.notelike_tokenisation import MultiTrackLargeVocabularyNotelikeTokeniser as Tokeniser

META = {
    "bounds": {
        "quick": "configuration lattice: 16 flag combinations x (velocity_bins, num_tracks) in {(1,1),(1,2),(2,1),(8,1)}, pitch range (60,62), default note "
                 "values, on a 2-3 note piece (first onset even 0..2, symbolic member of the note values, symbolic velocities, second note "
                 "after a symbolic even gap); shapes under 2 configurations: one note with onset even 0..200 (rests crossing two bar "
                 "lines), 11 signature plans on bar boundaries (incl. 16/8, 2/4->8/4, 3/8, 6/16->12/16), a second piece through the same tokeniser object, tracks of unequal length, simultaneous notes within and across tracks, "
                 "trailing rest with symbolic cap (duration clause)",
        "thorough": "as quick with velocity_bins {1,2,5,8} x tracks {1,2} for all 16 flag combinations, note values [6,12,24] with symbolic pitch, 3 tracks, "
                    "every signature plan (incl. 16/8, 2/4->8/4, 3/8) under 3 configurations for the onset and trailing-rest queries",
    },
    "outside_claim": ["more than 3 notes / 2 bars of onsets in the lattice sweep", "odd onsets (the greedy rest decomposition rejects e.g. 9 = 8+1; "
                      "the tokeniser's accepted grid is read as even ticks)", "custom step_sizes / time_signature_range / ppqn",
                      "total duration of a piece whose last note sustains across, or starts on, the final bar line (the statement can be read both ways)"],
    "stubs": ["np.digitize ite-sum", "int()/float() shadowed", "logging disabled",
              "mutable default arguments of the tokeniser's methods are emptied at the start of every path (a path stands for a fresh process)"],
}

FLAGS = list(itertools.product([True, False], repeat=4))
PLANS = {"none": [], "midbar-44-68": [(0, 4, 4), (48, 6, 8)], "616-1216": [(0, 6, 16), (72, 12, 16)], "34-38-34": [(0, 3, 4), (72, 3, 8), (108, 3, 4)], "late34": [(96, 3, 4)], "168": [(0, 16, 8)], "24-84": [(0, 2, 4), (48, 8, 4)], "38": [(0, 3, 8)], "34": [(0, 3, 4)], "68-24": [(0, 6, 8), (144, 2, 4)], "34-58": [(0, 3, 4), (72, 5, 8)], "44-34": [(0, 4, 4), (96, 3, 4)]}

VALID_PLANS = [p_ for p_ in PLANS if not p_.startswith("midbar")]      # signatures on bar boundaries (C01's input constraint)


def _fresh_process_defaults(cls):
    """every path stands for a run in a fresh process: mutable default arguments (shared between calls inside one
    process) start out empty, so what a path observes is what its own calls put there"""
    for f in vars(cls).values():
        if callable(f):
            ds = tuple(getattr(f, "__defaults__", None) or ()) + tuple((getattr(f, "__kwdefaults__", None) or {}).values())
            for d in ds:
                if isinstance(d, (dict, list, set)):
                    d.clear()


def mk(fl, bins, ntr, prange=(60, 62), nv=None):
    _fresh_process_defaults(Tokeniser)
    return Tokeniser(num_tracks=ntr, pitch_range=prange, velocity_bins=bins, note_values=list(nv) if nv else None,
                     flag_running_values=fl[0], flag_fuse_track=fl[1], flag_fuse_value=fl[2], flag_fuse_velocity=fl[3])


def bar_lines(plan, upto):
    """concrete bar-line ticks (> 0) of the plan's grid up to `upto`"""
    out = []
    t = 0
    num, den = 4, 4
    while t <= upto + 400 and len(out) < 64:
        for (tt, n, d) in PLANS[plan]:
            if tt <= t:
                num, den = n, d
        t += 24 * 4 * num // den
        out.append(t)
    return out


def expected_velocity(tok, v):
    bins = list(tok.velocity_bins)
    e = bins[-1]
    for b in reversed(bins[:-1]):
        e = ite(v <= b, b, e)
    return e


class Piece:
    """explicit symbolic note lists per track (+ concrete signature plan on track 0)"""

    def __init__(self, ntr, plan="none", meta_track=0):
        self.tracks = [[] for _ in range(ntr)]   # NoteV per track (channel = track)
        self.plan = plan
        self.cap = None
        self.meta_track = meta_track             # the track that carries the signature events

    def add(self, tr, pitch, start, dur, vel):
        self.tracks[tr].append(NoteV(tr, pitch, start, start + dur, vel))

    late_cap = False        # add the end marker through add_absolute_message after both views exist

    def sequences(self):
        seqs = []
        for ti, notes in enumerate(self.tracks):
            msgs = []
            if ti == self.meta_track:
                for (tt, n, d) in PLANS[self.plan]:
                    msgs.append(ts(n, d, time=tt))
            for n in notes:
                msgs.append(on(0, n.pitch, n.vel, time=n.start))
                msgs.append(off(0, n.pitch, time=n.end))
            if self.cap is not None and not self.late_cap:
                msgs.append(Message(message_type=INTERNAL, channel=0, time=self.cap))
            sq = abs_sequence(msgs) if msgs else Sequence()
            if self.cap is not None and self.late_cap:
                sq.rel
                sq.add_absolute_message(Message(message_type=INTERNAL, channel=0, time=self.cap))
            seqs.append(sq)
        return seqs


def roundtrip(ctx, tok, piece, check_duration=False):
    seqs = piece.sequences()
    ok, tokens = call(tok.tokenise, seqs)
    ctx.must("tokenise_succeeds", ok, disc=None if ok else type(tokens).__name__)
    if not ok:
        ctx.note("exception", repr(tokens))
        return ["tokenise raised", type(tokens).__name__]
    ctx.note("tokens", tokens)
    ok2, ids = call(tok.encode, tokens)
    ctx.must("encode_succeeds", ok2)
    if not ok2:
        return ["encode raised"]
    ok3, out = call(lambda: tok.detokenise(tok.decode(ids)))
    ctx.must("detokenise_succeeds", ok3, disc=None if ok3 else type(out).__name__)
    if not ok3:
        return ["detokenise raised", type(out).__name__]
    ctx.must("one_sequence_per_track", len(out) == len(piece.tracks))
    conds = []
    obs = []
    ends = []
    for ti, notes in enumerate(piece.tracks):
        ea, da = abs_events(raw_abs(out[ti])) if raw_abs(out[ti]) else ([], 0)
        got, unp = pair_notes(ea)
        exp = [[n.pitch, n.start, n.end, expected_velocity(tok, n.vel)] for n in notes]
        conds.append(and_(multiset_eq([[g.pitch, g.start, g.end, g.vel] for g in got], exp), unp == 0))
        obs.append(obs_abs(raw_abs(out[ti])))
        ends.append(da)
    ctx.must("notes_reproduced_per_track", and_(conds))
    # bar grid: the markers are consecutive bar lines of the input's grid, the same on every track
    marks = [[m.time for m in raw_abs(s) if m.message_type == INTERNAL] for s in out]
    lines = bar_lines(piece.plan, max([0] + marks[0]))
    ctx.must("bar_markers_on_input_grid", all(mk_ == lines[:len(mk_)] for mk_ in marks) and all(mk_ == marks[0] for mk_ in marks))
    last_on = 0
    for notes in piece.tracks:
        for n in notes:
            last_on = ite(n.start > last_on, n.start, last_on)
    nmark = len(marks[0])
    # every bar line that lies at or before the last onset is marked
    ctx.must("bar_lines_up_to_last_onset_marked", and_([implies(b <= last_on, i < nmark) for i, b in enumerate(lines[:nmark + 2])]))
    # ... and so is the end of the bar that holds the last onset (the last bar is closed even when nothing in it moved the clock)
    ctx.must("bar_of_last_onset_closed", and_([implies(and_((lines[i - 1] if i else 0) <= last_on, last_on < b), i < nmark)
                                               for i, b in enumerate(lines[:nmark + 2])]))
    sig_out = [(m.time, m.numerator, m.denominator) for m in raw_abs(out[0]) if m.message_type == TS]
    want_sig = []
    for (tt, n, d) in PLANS[piece.plan]:
        if n % 2 == 0 and d % 2 == 0 and tok.flag_simplify_time_signature:
            n, d = n // 2, d // 2
        want_sig.append((tt, n, d))
    ctx.note("signatures_out", sig_out)
    if check_duration and piece.cap is not None:
        c = piece.cap
        # a signature event after the cap extends the piece to its tick
        for (tt, _n, _d) in PLANS[piece.plan]:
            c = ite(c < tt, tt, c)
        want = lines[-1]
        for b in reversed(lines):
            want = ite(c <= b, b, want)
        dur = ends[0]
        for d_ in ends[1:]:
            dur = d_ if d_ > dur else dur
        ctx.must("duration_rounded_up_to_bar_end", eq(dur, want))
    return [tokens, obs]


CL = ["tokenise_succeeds", "encode_succeeds", "detokenise_succeeds", "one_sequence_per_track", "notes_reproduced_per_track",
      "bar_markers_on_input_grid", "bar_lines_up_to_last_onset_marked", "bar_of_last_onset_closed"]


def q_lattice(fl, bins, ntr, kmax, nv=None, sympitch=False, v2max=127):
    def fn(ctx):
        tok = mk(fl, bins, ntr, nv=nv)
        vals = tok.note_values
        p = Piece(ntr)
        k1 = ctx.int("k1", 0, kmax)
        i1 = ctx.int("i1", 0, len(vals) - 1)
        d1 = vals[i1]
        v1 = ctx.int("v1", 1, 127)
        pitch1 = ctx.int("p1", 60, 62) if sympitch else 60
        p.add(0, pitch1, 2 * k1, d1, v1)
        g = ctx.int("gap", 0, 2)
        same = ctx.int("same_value", 0, 1)
        d2 = ite(eq(same, 1), d1, 12)
        v2 = ctx.int("v2", 1, v2max)
        p.add(0, 61, 2 * k1 + d1 + (d1 % 2) + 2 * g, d2, v2)      # keep the second onset on the even grid
        if ntr > 1:
            p.add(1, 62, 2 * k1, 12, ctx.int("v3", 1, 127))
        return roundtrip(ctx, tok, p)
    name = f"lattice/f{''.join(str(int(x)) for x in fl)}-b{bins}-t{ntr}-k{kmax}{'-nv' if nv else ''}{'-p' if sympitch else ''}{'-v2max' + str(v2max) if v2max != 127 else ''}"
    return Query(name, fn, CL, desc="2-3 note piece under one configuration")


def q_onset(fl, bins, plan, kmax):
    def fn(ctx):
        tok = mk(fl, bins, 1)
        vals = tok.note_values
        p = Piece(1, plan)
        k = ctx.int("k", 0, kmax)
        i1 = ctx.int("i1", 0, len(vals) - 1)
        p.add(0, 60, 2 * k, vals[i1], ctx.int("v1", 1, 127))
        return roundtrip(ctx, tok, p)
    return Query(f"onset/{plan}/f{''.join(str(int(x)) for x in fl)}-b{bins}/k{kmax}", fn, CL,
                 desc=f"one note anywhere in the first bars, signature plan {plan}")


def q_cap(fl, bins, plan, kmax, late_cap=False):
    def fn(ctx):
        tok = mk(fl, bins, 2)
        p = Piece(2, plan)
        p.late_cap = late_cap
        k = ctx.int("k", 0, 20)
        p.add(0, 60, 2 * k, 12, ctx.int("v1", 1, 127))
        p.add(1, 61, 2 * k + 6, 6, 90)
        c = ctx.int("c", 0, kmax)
        p.cap = 2 * c
        # a genuine trailing rest: the cap lies after every note end (a cap on the last note-off is no rest at all)
        ctx.assume(p.cap > 2 * k + 12)
        return roundtrip(ctx, tok, p, check_duration=True)
    return Query(f"cap/{plan}/f{''.join(str(int(x)) for x in fl)}-b{bins}/c{kmax}{'/late' if late_cap else ''}", fn, CL + ["duration_rounded_up_to_bar_end"],
                 desc="trailing rest up to a symbolic cap: total duration rounded up to the bar end")


def q_late_signature(fl, bins):
    """signature change at a bar line while another track, ahead in the interleaving order, has a note exactly there"""
    def fn(ctx):
        tok = mk(fl, bins, 2)
        p = Piece(2, "late34")
        p.add(1, 61, 12 * ctx.int("k", 0, 9), 12, ctx.int("v1", 1, 127))
        p.add(1, 62, 96 + 12 * ctx.int("j", 0, 2), 12, 64)
        p.add(0, 60, 96 + 12 * ctx.int("i", 0, 8), 24, ctx.int("v2", 1, 127))
        return roundtrip(ctx, tok, p)
    return Query(f"late_signature/f{''.join(str(int(x)) for x in fl)}-b{bins}", fn, CL,
                 desc="first signature event only at the second bar line, notes of the other track on that line")


def q_meta_on_second_track(fl, bins, plan):
    """the signatures live on track 1 while track 0 has a note exactly on the bar line of a signature change"""
    def fn(ctx):
        tok = mk(fl, bins, 2)
        p = Piece(2, plan, meta_track=1)
        lines = [0] + bar_lines(plan, 300)
        p.add(0, 60, lines[1], 12, ctx.int("v1", 1, 127))
        p.add(0, 62, lines[1] + 12 * ctx.int("j", 1, 6), 12, 64)
        p.add(1, 61, 12 * ctx.int("k", 0, 12), 12, ctx.int("v2", 1, 127))
        return roundtrip(ctx, tok, p)
    return Query(f"meta_on_second_track/{plan}/f{''.join(str(int(x)) for x in fl)}-b{bins}", fn, CL,
                 desc="signature events on the second track, first-track note on the bar line of the change")


def q_second_piece(fl, bins, plan):
    """two unrelated pieces through one tokeniser object, each with a plain tokenise(piece) call: nothing of the first
    piece (bar position, signature, running values) may reach the second"""
    def fn(ctx):
        tok = mk(fl, bins, 1)
        vals = tok.note_values
        first = Piece(1, plan)
        i1 = ctx.int("i1", 0, len(vals) - 1)
        first.add(0, 61, 12 * ctx.int("k0", 5, 8), vals[i1], 64)
        ok, _ = call(tok.tokenise, first.sequences())
        ctx.must("tokenise_succeeds", ok)
        p = Piece(1)
        same = ctx.int("same_value", 0, 1)
        p.add(0, 60, 6 * ctx.int("k", 0, 20), ite(eq(same, 1), vals[i1], 18), ctx.int("v1", 1, 127))
        return roundtrip(ctx, tok, p)
    return Query(f"second_piece/{plan}/f{''.join(str(int(x)) for x in fl)}-b{bins}", fn, CL,
                 desc="a second piece tokenised after another one by the same tokeniser")


def q_sim(fl, bins):
    def fn(ctx):
        tok = mk(fl, bins, 2)
        vals = tok.note_values
        p = Piece(2)
        k = ctx.int("k", 0, 4)
        i1 = ctx.int("i1", 0, len(vals) - 1)
        p.add(0, 60, 2 * k, vals[i1], ctx.int("v1", 1, 127))
        p.add(0, 62, 2 * k, ite(eq(ctx.int("same", 0, 1), 1), vals[i1], 18), ctx.int("v2", 1, 127))      # chord in one track
        p.add(1, 61, 2 * k, 24, ctx.int("v3", 1, 127))            # simultaneous across tracks
        p.add(1, 61, 2 * k + 24 + 2 * ctx.int("g", 0, 12), 12, 64)  # second track is longer
        return roundtrip(ctx, tok, p)
    return Query(f"simultaneous/f{''.join(str(int(x)) for x in fl)}-b{bins}", fn, CL,
                 desc="chord, simultaneous notes across tracks, tracks of unequal length")


def queries(tier, seed):
    qs = []
    if tier == "quick":
        for fl in FLAGS:
            qs.append(q_lattice(fl, 1, 1, 1))
            qs.append(q_lattice(fl, 1, 2, 1))
            qs.append(q_lattice(fl, 2, 1, 1))
            # the library-wide default of 8 bins: its bin values (24, 40, ...) collide with note values (24)
            qs.append(q_lattice(fl, 8, 1, 0, v2max=40))
        for plan in VALID_PLANS:
            qs.append(q_onset(FLAGS[0], 1, plan, 100))
        qs.append(q_onset(FLAGS[15], 2, "34-58", 100))
        qs.append(q_onset(FLAGS[15], 2, "24-84", 60))       # both ends of the time-signature range (2 and 16 eighths)
        qs.append(q_cap(FLAGS[0], 1, "none", 120))
        qs.append(q_cap(FLAGS[15], 2, "34-58", 100))
        qs.append(q_cap(FLAGS[0], 1, "none", 120, late_cap=True))
        qs.append(q_sim(FLAGS[0], 1))
        qs.append(q_sim(FLAGS[15], 2))
        qs.append(q_late_signature(FLAGS[0], 1))
        qs.append(q_late_signature(FLAGS[15], 2))
        qs.append(q_meta_on_second_track(FLAGS[0], 1, "44-34"))
        qs.append(q_meta_on_second_track(FLAGS[15], 2, "34-58"))
        qs.append(q_second_piece(FLAGS[0], 1, "34"))
        qs.append(q_second_piece(FLAGS[15], 2, "34-58"))
        qs.append(q_second_piece(FLAGS[7], 2, "none"))       # running values, nothing fused
    else:
        for fl in FLAGS:
            for bins in (1, 2, 5, 8):
                for ntr in (1, 2):
                    qs.append(q_lattice(fl, bins, ntr, 2 if bins <= 2 else 0, v2max=127 if bins <= 2 else 40))
            qs.append(q_lattice(fl, 2, 1, 3, nv=(6, 12, 24), sympitch=True))
            qs.append(q_lattice(fl, 1, 3, 1))
        for plan in VALID_PLANS:
            for fl, bins in ((FLAGS[0], 1), (FLAGS[15], 2), (FLAGS[6], 5)):
                qs.append(q_onset(fl, bins, plan, 120))
                qs.append(q_cap(fl, bins, plan, 120))
        for fl in FLAGS:
            qs.append(q_sim(fl, 2))
            qs.append(q_late_signature(fl, 2))
            qs.append(q_second_piece(fl, 2, "34"))
    return qs
