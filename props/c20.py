"""C20 Key and circle-of-fifths tables are algebraically consistent."""
from symx.run import Query
from symx.lib import *  # noqa
from scoda.misc.music_theory import CircleOfFifths, MusicMapping, Note

META = {
    "bounds": "key index 0..14 (all 15 keys); transposition intervals and pitches are UNBOUNDED symbolic integers "
              "(the code only branches on n % 12, so each of the 12 residue paths covers every integer of its class)",
    "outside_claim": [],
    "stubs": ["logging disabled",
              "class-level containers of CircleOfFifths / MusicMapping / Key are reset to their import-time contents at the start of "
              "every path (a path stands for a fresh process)"],
}

# independent reference: tonic pitch class of every key name
TONIC = {"C": 0, "G": 7, "D": 2, "A": 9, "E": 4, "B": 11, "F#": 6, "C#": 1, "F": 5, "Bb": 10, "Eb": 3, "Ab": 8,
         "Db": 1, "Gb": 6, "Cb": 11}
MAJOR = (0, 2, 4, 5, 7, 9, 11)


def scale_of(key):
    return {n.value for n in MusicMapping.KeyNoteMapping[key][0]}


def q_transpose():
    def fn(ctx):
        fresh_process()
        k = ctx.int("key", 0, 14)
        n = ctx.int("n")
        key = KEYS[k]
        res = Key.transpose_key(key, n)
        ctx.must("returns_key", isinstance(res, Key))
        if not isinstance(res, Key):
            return ["none"]
        t0, t1 = TONIC[key.value], TONIC[res.value]
        ctx.must("tonic_shift", eq((t0 + n) % 12, t1))
        ctx.must("identity_mod12", implies(eq(n % 12, 0), t0 == t1))
        s0, s1 = scale_of(key), scale_of(res)
        ctx.must("scale_shift", and_([iff(i in s0, or_([eq((i + n) % 12, j) for j in s1])) for i in range(12)]))
        return [res.value]
    return Query("transpose_key", fn, ["returns_key", "tonic_shift", "identity_mod12", "scale_shift"],
                 desc="transpose_key(key, n) for every key and unbounded n")


def q_compose():
    def fn(ctx):
        fresh_process()
        k = ctx.int("key", 0, 14)
        a = ctx.int("a")
        b = ctx.int("b")
        key = KEYS[k]
        r1 = Key.transpose_key(key, a)
        ctx.must("returns_key", isinstance(r1, Key))
        if not isinstance(r1, Key):
            return ["none"]
        r2 = Key.transpose_key(r1, b)
        r3 = Key.transpose_key(key, a + b)
        ok = isinstance(r2, Key) and isinstance(r3, Key)
        ctx.must("returns_key2", ok)
        if not ok:
            return ["none2"]
        ctx.must("additive", TONIC[r2.value] == TONIC[r3.value])
        return [r1.value, r2.value, r3.value]
    return Query("transpose_compose", fn, ["returns_key", "returns_key2", "additive"],
                 desc="t(t(k,a),b) == t(k,a+b) up to tonic, unbounded a,b")


def q_major():
    def fn(ctx):
        fresh_process()
        k = ctx.int("key", 0, 14)
        key = KEYS[k]
        ctx.must("major_scale", scale_of(key) == {(TONIC[key.value] + d) % 12 for d in MAJOR})
        ctx.must("seven_notes", len(MusicMapping.KeyNoteMapping[key][0]) == 7)
        return [key.value]
    return Query("key_note_mapping", fn, ["major_scale", "seven_notes"], desc="every key's note set is a major scale")


def q_cof():
    def fn(ctx):
        fresh_process()
        a = ctx.int("a")
        b = ctx.int("b")
        d = CircleOfFifths.get_distance(a, b)
        ctx.must("range", -5 <= d <= 6)
        ctx.must("mod12", eq((d - 7 * (b - a)) % 12, 0))
        pa = CircleOfFifths.get_position(a)
        pb = CircleOfFifths.get_position(b)
        ctx.must("position_range", -5 <= pa <= 6 and -5 <= pb <= 6)
        ctx.must("position_is_fifths", and_(eq((pa - 7 * a) % 12, 0), eq((pb - 7 * b) % 12, 0)))
        ctx.must("distance_is_position_difference", (d - (pb - pa)) % 12 == 0)
        land = CircleOfFifths.from_distance(a, d)
        ctx.must("from_distance_lands", eq(b % 12, land))
        return [d, pa, pb, land]
    return Query("circle_of_fifths", fn, ["range", "mod12", "position_range", "position_is_fifths",
                                           "distance_is_position_difference", "from_distance_lands"],
                 desc="get_distance / get_position / from_distance for unbounded pitches a, b")


def q_cof_any_distance():
    def fn(ctx):
        fresh_process()
        a = ctx.int("a")
        d = ctx.int("d")
        land = CircleOfFifths.from_distance(a, d)
        ctx.must("from_distance_any", eq((land - (a + 7 * d)) % 12, 0))
        ctx.must("from_distance_pc", 0 <= land <= 11)
        return [land]
    return Query("from_distance_any", fn, ["from_distance_any", "from_distance_pc"],
                 desc="from_distance(a, d) is a + d fifths for unbounded a, d")


import copy as _copy

_STATEFUL = (CircleOfFifths, MusicMapping, Key)
_PRISTINE = {c: {k: _copy.deepcopy(v) for k, v in vars(c).items()
                 if isinstance(v, (dict, list, set)) and not (k.startswith("_") and k.endswith("_"))} for c in _STATEFUL}


def fresh_process():
    """every path stands for a run in a fresh process: class-level containers get the contents they had at import time,
    so what a path observes is what its own calls left behind (and a violation replays in a fresh interpreter)"""
    for c, snap in _PRISTINE.items():
        for k, v in list(vars(c).items()):
            if not isinstance(v, (dict, list, set)) or (k.startswith("_") and k.endswith("_")):
                continue
            if k not in snap:
                delattr(c, k)
                continue
            v.clear()
            (v.extend if isinstance(v, list) else v.update)(_copy.deepcopy(snap[k]))


def q_reverse_pair():
    """a pair of pitches asked in one direction and then in the other, in one process"""
    def fn(ctx):
        fresh_process()
        a = ctx.int("a")
        b = ctx.int("b")
        d1 = CircleOfFifths.get_distance(b, a)
        d2 = CircleOfFifths.get_distance(a, b)
        d3 = CircleOfFifths.get_distance(b, a)
        ctx.must("mod12", and_(eq((d1 - 7 * (a - b)) % 12, 0), eq((d2 - 7 * (b - a)) % 12, 0), eq(d3, d1)))
        ctx.must("range", and_(-5 <= d1, d1 <= 6, -5 <= d2, d2 <= 6))
        ctx.must("from_distance_lands", eq(CircleOfFifths.from_distance(a, d2), b % 12))
        return [d1, d2, d3]
    return Query("reverse_pair", fn, ["mod12", "range", "from_distance_lands"], desc="get_distance(b, a), then get_distance(a, b)")


def q_repeatable():
    """the tables are constants: asking twice gives the same answer"""
    def fn(ctx):
        fresh_process()
        k = ctx.int("key", 0, 14)
        n = ctx.int("n")
        a = ctx.int("a")
        d = ctx.int("d")
        r1 = Key.transpose_key(KEYS[k], n)
        r2 = Key.transpose_key(KEYS[k], n)
        l1 = CircleOfFifths.from_distance(a, d)
        l2 = CircleOfFifths.from_distance(a, d)
        ctx.must("same_answer_twice", r1 is r2 and l1 == l2)
        return [str(r1), l1]
    return Query("repeatable", fn, ["same_answer_twice"], desc="the same question twice in one process")


def queries(tier, seed):
    return [q_repeatable(), q_reverse_pair(), q_transpose(), q_compose(), q_major(), q_cof(), q_cof_any_distance()]


# ---- independent second opinion: CrossHair (pre-installed symbolic executor) on the same pure functions
CROSSHAIR_SRC = '''
from scoda.misc.music_theory import CircleOfFifths, Key

TONIC = {"C": 0, "G": 7, "D": 2, "A": 9, "E": 4, "B": 11, "F#": 6, "C#": 1, "F": 5, "Bb": 10, "Eb": 3, "Ab": 8,
         "Db": 1, "Gb": 6, "Cb": 11}
KEYS = list(Key)


def transpose_tonic(k: int, n: int) -> bool:
    """
    pre: 0 <= k < 15
    post: _
    """
    r = Key.transpose_key(KEYS[k], n)
    return isinstance(r, Key) and TONIC[r.value] == (TONIC[KEYS[k].value] + n) % 12


def cof_distance(a: int, b: int) -> bool:
    """
    post: _
    """
    d = CircleOfFifths.get_distance(a, b)
    return -5 <= d <= 6 and (d - 7 * (b - a)) % 12 == 0 and CircleOfFifths.from_distance(a, d) == b % 12
'''


def extra_checks(ctl, tier, seed):
    import os
    import re
    import subprocess
    import sys
    import tempfile
    import time
    verif = os.path.dirname(os.path.dirname(os.path.abspath(__file__)))
    d = tempfile.mkdtemp(prefix="scoda-c20-ch-")
    out = []
    try:
        path = os.path.join(d, "c20_crosshair.py")
        open(path, "w").write(CROSSHAIR_SRC)
        t0 = time.time()
        env = dict(os.environ, PYTHONPATH=ctl.root + os.pathsep + os.path.join(verif, ".deps"))
        to = 40 if tier == "quick" else 400
        try:
            r = subprocess.run([sys.executable, "-m", "crosshair", "check", "--report_all", "--per_condition_timeout", str(to), path],
                               capture_output=True, text=True, env=env, cwd=d, timeout=3 * to + 120)
            text = r.stdout + r.stderr
        except subprocess.TimeoutExpired:
            text = "timeout"
        lines = [ln for ln in text.splitlines() if "c20_crosshair.py" in ln]
        for fn in ("transpose_tonic", "cof_distance"):
            lineno = CROSSHAIR_SRC[:CROSSHAIR_SRC.index("def " + fn)].count("\n") + 1
            mine = [ln for ln in lines if any(f":{lineno + o}:" in ln for o in range(5)) or (fn + "(") in ln]
            res = {"id": f"crosshair/{fn}", "clause": "crosshair_" + fn, "engine": "crosshair-tool (independent second opinion)",
                   "solver_s": round(time.time() - t0, 1), "output": mine[:3]}
            cex = [ln for ln in mine if "error" in ln and "when calling" in ln]
            if cex:
                args = None
                try:
                    import ast as _ast
                    call_src = cex[0][cex[0].index(fn + "("):]
                    depth, end = 0, None
                    for i_, ch in enumerate(call_src):
                        if ch == "(":
                            depth += 1
                        elif ch == ")":
                            depth -= 1
                            if depth == 0:
                                end = i_ + 1
                                break
                    node = _ast.parse(call_src[:end], mode="eval").body
                    names = {"transpose_tonic": ["k", "n"], "cof_distance": ["a", "b"]}[fn]
                    args = {nm: _ast.literal_eval(a_) for nm, a_ in zip(names, node.args)}
                    for kw in node.keywords:
                        args[kw.arg] = _ast.literal_eval(kw.value)
                except Exception:  # noqa: an unparsable report is recorded, never trusted
                    args = None
                if args is None or len(args) != 2:
                    res.update(status="not_confirmed", note="counterexample reported but not parsable: " + cex[0][-200:])
                    out.append(res)
                    continue
                res.update(status="violated", inputs={"fn": fn, "args": args})
            elif any("Confirmed over all paths" in ln for ln in mine):
                res["status"] = "held"
            else:
                res["status"] = "not_confirmed"      # recorded only: symx decides the property
            out.append(res)
    finally:
        import shutil
        shutil.rmtree(d, ignore_errors=True)
    return out


def replay_extra(xid, inputs):
    ns = {}
    exec(CROSSHAIR_SRC, ns)
    try:
        ok = ns[inputs["fn"]](**inputs["args"])
    except Exception as ex:  # noqa
        return True, f"{inputs['fn']}({inputs['args']}) raised {type(ex).__name__}"
    return (not ok), f"{inputs['fn']}({inputs['args']}) -> {ok}"
