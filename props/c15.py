"""C15 Merging sequences yields exactly the union of their music."""
from symx.run import Query
from symx.lib import *  # noqa

META = {
    "bounds": {
        "quick": "2 inputs of <=2 notes each (+1 time / key signature each at distinct ticks); all notes on one "
                 "(channel,pitch) so overlap / abutting / containment are the solver's choice, or symbolic channel 0..1 / pitch 60..61; "
                 "waits 1..12 (0..12 for leading rests), an empty input, inputs of different length, probe tick symbolic",
        "thorough": "as quick with waits 1..20, 3 inputs, 2+2 notes, overlapping notes with symbolic channels",
    },
    "outside_claim": ["more than 4 notes in total", "signature events of different inputs on the same tick (which one is 'in force' is not defined)",
                      "ill-formed inputs"],
    "stubs": ["int() shadowed", "logging disabled"],
}

A1 = [("W", 0, 12), ("ON", 0), "W", ("OFF", 0), ("W", 0, 12)]
A2 = [("W", 0, 12), ("ON", 0), "W", ("OFF", 0), ("W", 0, 12), ("ON", 1), "W", ("OFF", 1)]
A2O = [("ON", 0), "W", ("ON", 1), "W", ("OFF", 0), "W", ("OFF", 1), "W"]
ATS = [("TS", 3, 4), ("ON", 0), "W", ("OFF", 0), "W", ("KS", KEYS[4]), "W"]
BTS = ["W", ("TS", 6, 8), ("ON", 0), "W", ("OFF", 0), ("KS", KEYS[7]), "W"]
# signature history A, B, A across the inputs: the receiver repeats its own signature, another input changes it in between
ATS2 = [("TS", 4, 4), ("ON", 0), "W", ("OFF", 0), "W", ("TS", 4, 4), "W"]
BTS2 = ["W", ("TS", 3, 4), "W"]
EMPTY = []
REST = ["W"]


def union_in_force(evs, kind, tau, default):
    """value of the latest event of `kind` with time <= tau in an UNORDERED event list with distinct ticks"""
    cands = [e for e in evs if e.kind == kind]
    cur = default
    for e in cands:
        if kind == TS:
            val = (e.m.numerator, e.m.denominator)
        else:
            val = (KEYS.index(e.m.key),)
        is_latest = and_([e.t <= tau] + [or_(o.t > tau, o.t < e.t) for o in cands if o is not e])
        cur = tuple(ite(is_latest, v, d) for v, d in zip(val, cur))
    return cur


def q_merge(name, specs, same_key, wmax, late_first=False):
    def fn(ctx):
        bs = []
        for k, sp in enumerate(specs):
            b = build_rel(ctx, sp, pitch=(60, 60) if same_key else (60, 61), chan=(0, 0) if same_key else (0, 1),
                          wait=(1, wmax), prefix=f"s{k}")
            ctx.assume(distinct_keys_or_disjoint(ctx, b.notes))
            bs.append(b)
        sig_ticks = [e.t for b in bs for e in b.events if e.kind == TS]
        ctx.assume(and_([not_(eq(x, y)) for i, x in enumerate(sig_ticks) for y in sig_ticks[i + 1:]]))
        ksig_ticks = [e.t for b in bs for e in b.events if e.kind == KS]
        ctx.assume(and_([not_(eq(x, y)) for i, x in enumerate(ksig_ticks) for y in ksig_ticks[i + 1:]]))
        tau = ctx.int("tau", 0, (wmax + 1) * 8)
        def mkseq(b):
            if not late_first:
                return rel_sequence([m.copy() for m in b.msgs])
            # the same music as absolute messages, entered through the public API with the later note first
            ms = []
            for n in reversed(b.notes):
                ms.append(on(n.ch, n.pitch, n.vel, time=n.start))
                ms.append(off(n.ch, n.pitch, time=n.end))
            for e in b.events:
                m_ = e.m.copy()
                m_.time = e.t
                ms.append(m_)
            ms.append(Message(message_type=INTERNAL, channel=0, time=b.total))
            return abs_sequence(ms)
        seqs = [mkseq(b) for b in bs]
        seqs2 = [mkseq(b) for b in bs]
        seqs[0].merge(seqs[1:])
        out = seqs[0]
        er, dr = rel_events(raw_rel(out))
        ea, da = abs_events(raw_abs(out))
        all_in = [e for b in bs for e in b.all_events]
        keys = keys_of(all_in)
        union_sounding = lambda c, p: or_([sounding_count(b.all_events, c, p, tau) >= 1 for b in bs])
        ctx.must("roll_is_union", and_([iff(sounding_count(er, c, p, tau) >= 1, union_sounding(c, p)) for c, p in keys]))
        ctx.must("roll_is_union_abs", and_([iff(sounding_count(ea, c, p, tau) >= 1, union_sounding(c, p)) for c, p in keys]))
        ctx.must("alternates", wellformed_alternation(er))
        ctx.must("only_input_keys", and_([or_([and_(eq(e.m.channel, c), eq(e.m.note, p)) for c, p in keys])
                                          for e in er if e.kind in (ON, OFF)]))
        mx = 0
        for b in bs:
            mx = ite(b.total > mx, b.total, mx)
        ctx.must("duration_is_max", and_(eq(dr, mx), eq(da, mx)))
        ctx.must("time_signature_in_force", and_([eq(x, y) for x, y in zip(in_force(er, TS, tau, (0, 0)),
                                                                               union_in_force(all_in, TS, tau, (0, 0)))]))
        ctx.must("key_signature_in_force", and_([eq(x, y) for x, y in zip(in_force(er, KS, tau, (-1,)),
                                                                              union_in_force(all_in, KS, tau, (-1,)))]))
        ctx.must("signatures_are_input_events", and_([or_([and_(eq(o.t, i.t), msg_eq(o.m, i.m)) for i in all_in if i.kind == o.kind])
                                                      for o in er if o.kind in (TS, KS)]))
        # order independence: merge the last input with all the others
        seqs2[-1].merge(seqs2[:-1])
        er2, dr2 = rel_events(raw_rel(seqs2[-1]))
        n1, u1 = pair_notes(er)
        n2, u2 = pair_notes(er2)
        ctx.must("order_independent", and_(multiset_eq([n.tup(velocity=False) for n in n1], [n.tup(velocity=False) for n in n2]),
                                           u1 == 0, u2 == 0, eq(dr, dr2)))
        return [obs_events(er, dr), obs_events(er2, dr2)]
    return Query(f"{name}/{'same' if same_key else 'free'}/w{wmax}{'/late-first' if late_first else ''}", fn,
                 ["roll_is_union", "roll_is_union_abs", "alternates", "only_input_keys", "duration_is_max",
                  "time_signature_in_force", "key_signature_in_force", "signatures_are_input_events", "order_independent"],
                 desc=f"merge of {len(specs)} inputs ({name})")


def queries(tier, seed):
    w = 12 if tier == "quick" else 20
    qs = [q_merge("1+1", [A1, A1], True, w), q_merge("1+1", [A1, A1], False, 6 if tier == "quick" else 12),
          q_merge("2+1", [A2, A1], True, min(w, 10)),
          q_merge("1+empty", [A1, EMPTY], True, w), q_merge("empty+1", [EMPTY, A1], True, w),
          q_merge("1+rest", [A1, REST], True, w), q_merge("rest+1", [REST, A1], True, w),
          q_merge("2+1", [A2, A1], True, 6, late_first=True), q_merge("empty+2", [EMPTY, A2], True, 8, late_first=True),
          q_merge("ts+ts", [ATS, BTS], True, min(w, 8)), q_merge("aba", [ATS2, BTS2], True, min(w, 10)), q_merge("ts+ts", [ATS, BTS], False, 4 if tier == "quick" else 6)]
    if tier == "thorough":
        qs += [q_merge("2o+1", [A2O, A1], False, 6), q_merge("1+1+1", [A1, A1, A1], True, 4),
               q_merge("2+2", [A2, A2], True, 6), q_merge("2+1+rest", [A2, A1, REST], True, 6)]
    return qs
