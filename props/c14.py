"""C14 Transposition shifts each pitch class by the interval, keeping pitches in range."""
from symx.run import Query
from symx.lib import *  # noqa
from scoda.elements.bar import Bar
from props.c20 import TONIC  # noqa

META = {
    "bounds": {
        "quick": "1 note: pitch 21..108, interval -130..130; 2 notes: one pitch 21..108, the other within 3 of a range "
                 "limit, interval -15..15; waits 11..13 (durations only matter to the re-quantisation after an octave wrap); "
                 "key-signature event (keys rotate with VERIF_SEED; all 15 in thorough) with pitch 59..61, interval -13..13; Bar.transpose with key, interval -30..30",
        "thorough": "as quick, plus 2 notes with interval -40..40 and both pitches free, 3-note shape near the limits",
    },
    "outside_claim": ["more than 3 notes", "intervals beyond +-130 (the octave-wrap loops iterate per 12)"],
    "stubs": ["int() shadowed in scoda modules (identity on SymInt)", "logging disabled"],
}

LO, HI = 21, 108


def _oracle(ctx, b, n, seq, shifted, tag=""):
    er, dr = rel_events(raw_rel(seq))
    ea, da = abs_events(raw_abs(seq))
    notes_r, unp_r = pair_notes(er)
    notes_a, unp_a = pair_notes(ea)
    # (the two views must describe the same result; the re-quantisation after an octave wrap works on one view)
    ctx.must("views_agree", and_(events_eq_multiset_timed(er, ea), eq(dr, da)))
    ctx.must("in_range", and_([and_(e.m.note >= LO, e.m.note <= HI) for e in er + ea if e.kind in (ON, OFF)]))
    ctx.must("image_of_original", and_([
        or_([and_(eq(o.start, i.start), eq(o.ch, i.ch), eq((o.pitch - i.pitch - n) % 12, 0)) for i in b.notes])
        for o in notes_r + notes_a]))
    want_shift = or_([or_(i.pitch + n < LO, i.pitch + n > HI) for i in b.notes])
    ctx.must("return_value", iff(shifted, want_shift))
    exp = [[i.pitch + n, i.start, i.end, i.ch, i.vel] for i in b.notes]
    ctx.must("exact_shift_when_not_wrapped",
             implies(not_(want_shift), and_(multiset_eq([x.tup() for x in notes_r], exp),
                                            multiset_eq([x.tup() for x in notes_a], exp), unp_r == 0, unp_a == 0)))
    ctx.must("duration_kept_when_not_wrapped", implies(not_(want_shift), and_(eq(dr, b.total), eq(da, b.total))))
    ksin = [e for e in b.events if e.kind == KS]
    ksout = [e for e in er if e.kind == KS]
    ok = len(ksin) == len(ksout) and all(isinstance(e.m.key, Key) for e in ksout)
    ctx.must("key_defined", ok)
    if ok:
        ctx.must("key_transposed", and_([and_(eq(o.t, i.t), eq((TONIC[i.m.key.value] + n) % 12, TONIC[o.m.key.value]))
                                         for i, o in zip(ksin, ksout)]))
    return [obs_events(er, dr), obs_events(ea, da)]


def _tonic(evs):
    """key-signature events compared up to enharmonic spelling (C20: a multiple of 12 is the identity up to
    spelling; Db -> D -> C# is a legitimate way back)"""
    out = []
    for e in evs:
        if e.kind == KS and isinstance(e.m.key, Key):
            m = e.m.copy()
            m.key = None
            m.program = TONIC[e.m.key.value]
            out.append(Ev(e.t, m))
        else:
            out.append(e)
    return out


def q_seq(name, spec, pitch, nrange, key=None, wait=(11, 13), near=None, max_paths=200000, nowrap=False, mid=None, fresh="rel"):
    spec = list(spec)
    if key is not None:
        spec = [("KS", KEYS[key])] + spec

    def fn(ctx):
        b = build_rel(ctx, spec, pitch=pitch, chan=(0, 1), wait=wait)
        ctx.assume(distinct_keys_or_disjoint(ctx, b.notes))
        if near:
            for i in near:
                p = b.params[i][1]
                ctx.assume(or_(p <= LO + 2, p >= HI - 2))
        if mid:
            for i in mid:
                p = b.params[i][1]
                ctx.assume(and_(p >= 58, p <= 62))
        n = ctx.int("n", *nrange)
        if nowrap:
            ctx.assume(and_([and_(i.pitch + n >= LO, i.pitch + n <= HI) for i in b.notes]))
        orig = b.all_events
        seq = rel_sequence(b.msgs)
        if fresh == "both":
            seq.abs                      # the absolute view exists before the call and must follow the transposition
        elif fresh == "abs":
            seq = Sequence(absolute_sequence=seq.abs)
        shifted = seq.transpose(n)
        obs = _oracle(ctx, b, n, seq, shifted)
        if not shifted:
            back = seq.transpose(-n)
            er2, dr2 = rel_events(raw_rel(seq))
            # (an input that already lies outside the playable range cannot be restored: the way back wraps it)
            in_range_before = and_([and_(i.pitch >= LO, i.pitch <= HI) for i in b.notes])
            ctx.must("roundtrip_restores", implies(in_range_before, and_(back is False,
                                                                         events_eq_multiset_timed(_tonic(er2), _tonic(orig)),
                                                                         eq(dr2, b.total))))
            obs.append(obs_events(er2, dr2))
        return obs + [shifted]
    cl = ["views_agree", "in_range", "image_of_original", "return_value", "exact_shift_when_not_wrapped",
          "duration_kept_when_not_wrapped", "key_defined", "roundtrip_restores"]
    if key is not None:
        cl.append("key_transposed")
    return Query(f"seq/{name}/key{key}/n{nrange[0]}..{nrange[1]}/w{wait[0]}..{wait[1]}{'/nowrap' if nowrap else ''}{'/' + fresh if fresh != 'rel' else ''}", fn, cl,
                 desc=f"Sequence.transpose(n) shape {name} key {key}", max_paths=max_paths)


def q_bar(key, nrange):
    def fn(ctx):
        b = build_rel(ctx, [("KS", KEYS[key]), ("ON", 0), "W", ("OFF", 0), "W"], pitch=(LO, HI), chan=(0, 0), wait=(11, 13))
        p = b.params[0][1]
        ctx.assume(or_(p <= LO + 2, p >= HI - 2, and_(p >= 59, p <= 61)))
        n = ctx.int("n", *nrange)
        bar = Bar(rel_sequence(b.msgs), 4, 4, KEYS[key])
        shifted = bar.transpose(n)
        ok = isinstance(bar.key_signature, Key)
        ctx.must("bar_key_defined", ok)
        if ok:
            ctx.must("bar_key_transposed", eq((TONIC[KEYS[key].value] + n) % 12, TONIC[bar.key_signature.value]))
        er, dr = rel_events(raw_rel(bar.sequence))
        ctx.must("bar_in_range", and_([and_(e.m.note >= LO, e.m.note <= HI) for e in er if e.kind in (ON, OFF)]))
        ctx.must("bar_return_value", iff(shifted, or_(b.notes[0].pitch + n < LO, b.notes[0].pitch + n > HI)))
        ksout = [e for e in er if e.kind == KS]
        okk = len(ksout) == 1 and isinstance(ksout[0].m.key, Key)
        ctx.must("bar_seq_key_defined", okk)
        if okk:
            ctx.must("bar_seq_key_transposed", eq((TONIC[KEYS[key].value] + n) % 12, TONIC[ksout[0].m.key.value]))
        return [obs_events(er, dr), shifted, str(bar.key_signature)]
    return Query(f"bar/key{key}/n{nrange[0]}..{nrange[1]}", fn,
                 ["bar_key_defined", "bar_key_transposed", "bar_in_range", "bar_return_value",
                  "bar_seq_key_defined", "bar_seq_key_transposed"], desc=f"Bar.transpose(n), bar key {key}")


def q_keys_only(key, nrange):
    """a sequence / bar that carries a key signature but no notes"""
    def fn(ctx):
        n = ctx.int("n", *nrange)
        seq = rel_sequence([ks(KEYS[key]), wait(ctx.int("w", 1, 24))])
        shifted = seq.transpose(n)
        er, dr = rel_events(raw_rel(seq))
        ksout = [e for e in er if e.kind == KS]
        ok = len(ksout) == 1 and isinstance(ksout[0].m.key, Key)
        ctx.must("key_defined", ok)
        if ok:
            ctx.must("key_transposed", eq((TONIC[KEYS[key].value] + n) % 12, TONIC[ksout[0].m.key.value]))
        ctx.must("return_value", shifted is False)
        bar = Bar(rel_sequence([ks(KEYS[key]), wait(12)]), 3, 4, KEYS[key])
        bar.transpose(n)
        eb, _ = rel_events(raw_rel(bar.sequence))
        kb = [e for e in eb if e.kind == KS]
        okb = len(kb) == 1 and isinstance(kb[0].m.key, Key) and isinstance(bar.key_signature, Key)
        ctx.must("bar_key_defined", okb)
        if okb:
            ctx.must("bar_seq_key_transposed", and_(eq((TONIC[KEYS[key].value] + n) % 12, TONIC[kb[0].m.key.value]),
                                                    TONIC[kb[0].m.key.value] == TONIC[bar.key_signature.value]))
        return [str(ksout[0].m.key) if ksout else None]
    return Query(f"keys_only/key{key}/n{nrange[0]}..{nrange[1]}", fn, ["key_defined", "key_transposed", "return_value", "bar_key_defined",
                                                                        "bar_seq_key_transposed"], desc="key signature without notes")


def q_two_keys(nrange):
    """two key-signature events in one sequence (a modulation)"""
    def fn(ctx):
        k1 = ctx.int("k1", 0, 14)
        k2 = ctx.int("k2", 0, 14)
        n = ctx.int("n", *nrange)
        key1, key2 = KEYS[k1], KEYS[k2]
        seq = rel_sequence([ks(key1), on(0, 60, 9), wait(12), off(0, 60), ks(key2), wait(12)])
        seq.transpose(n)
        er, dr = rel_events(raw_rel(seq))
        kk = [e for e in er if e.kind == KS]
        ok = len(kk) == 2 and all(isinstance(e.m.key, Key) for e in kk)
        ctx.must("key_defined", ok)
        if ok:
            ctx.must("key_transposed", and_(eq((TONIC[key1.value] + n) % 12, TONIC[kk[0].m.key.value]),
                                            eq((TONIC[key2.value] + n) % 12, TONIC[kk[1].m.key.value])))
        return [[str(e.m.key) for e in kk]]
    return Query(f"two_keys/n{nrange[0]}..{nrange[1]}", fn, ["key_defined", "key_transposed"], desc="two key signatures, both transposed")


def q_same_relative_object_twice():
    """two transpositions of the same RelativeSequence object: the second answer does not depend on the first"""
    def fn(ctx):
        from scoda.sequences.relative_sequence import RelativeSequence
        p = ctx.int("p", 100, 108)
        n1 = ctx.int("n1", 1, 20)
        n2 = ctx.int("n2", -3, 3)
        rel = RelativeSequence([on(0, p, 9), wait(12), off(0, p), on(0, 60, 9), wait(12), off(0, 60)])
        first = rel.transpose(n1)
        mid = [m.note for m in rel._messages if m.message_type == ON]
        second = rel.transpose(n2)
        out = [m.note for m in rel._messages if m.message_type == ON]
        want2 = or_([or_(x + n2 < LO, x + n2 > HI) for x in mid])
        ctx.must("return_value", iff(second, want2), disc="second call")
        ctx.must("in_range", and_([and_(x >= LO, x <= HI) for x in out]))
        seq = Sequence(relative_sequence=rel)
        third = seq.transpose(0)
        ctx.must("return_value_wrapped_in_sequence", third is False)
        return [first, second, third]
    return Query("same_relative_object_twice", fn, ["return_value", "in_range", "return_value_wrapped_in_sequence"],
                 desc="RelativeSequence.transpose twice on one object, then through a Sequence")


def q_raw_events(nrange):
    """no octave wrap: every event keeps its tick, velocity and order, whatever the input looks like (also overlapping
    notes of one pitch and an unclosed note): transposition must not tidy the sequence up"""
    def fn(ctx):
        spec = [("ON", 0), "W", ("ON", 1), "W", ("OFF", 0), "W", ("OFF", 1), ("ON", 2), "W"]
        b = build_rel(ctx, spec, pitch=(60, 61), chan=(0, 0), wait=(1, 12))
        n = ctx.int("n", *nrange)
        seq = rel_sequence(b.msgs)
        shifted = seq.transpose(n)
        exp = []
        for e in b.all_events:
            m = e.m.copy()
            m.note = m.note + n
            exp.append(Ev(e.t, m))
        er, dr = rel_events(raw_rel(seq))
        ea, da = abs_events(raw_abs(seq))
        ctx.must("return_value", shifted is False)
        ctx.must("events_untouched_when_not_wrapped", and_(events_eq_positionwise(er, exp), eq(dr, b.total),
                                                           events_eq_multiset_timed(ea, exp)))
        return [obs_events(er, dr)]
    return Query(f"raw_events/n{nrange[0]}..{nrange[1]}", fn, ["return_value", "events_untouched_when_not_wrapped"],
                 desc="no wrap on input with overlapping same-pitch notes and an unclosed note")


N1 = [("ON", 0), "W", ("OFF", 0), "W"]
N2 = ["W", ("ON", 0), "W", ("ON", 1), "W", ("OFF", 0), "W", ("OFF", 1)]
N2S = [("ON", 0), "W", ("OFF", 0), ("ON", 1), "W", ("OFF", 1)]
N3 = [("ON", 0), "W", ("ON", 1), "W", ("OFF", 0), ("ON", 2), "W", ("OFF", 1), ("OFF", 2)]


def queries(tier, seed):
    qs = [q_seq("n1", N1, (LO, HI), (-130, 130))]
    keys = range(15) if tier == "thorough" else sorted({(seed + i * 4) % 15 for i in range(3)} | {12})
    for k in keys:
        qs.append(q_seq("n1", N1, (59, 61), (-13, 13), key=k))
    for k in (range(15) if tier == "thorough" else sorted({(seed + 1) % 15, 13, 14})):
        qs.append(q_bar(k, (-30, 30)))
    # two notes, no octave wrap: every duration / wait symbolic (nothing is hashed on these paths)
    qs.append(q_seq("n2", N2, (LO, HI), (-87, 87), wait=(1, 24), nowrap=True))
    qs.append(q_seq("n2s", N2S, (LO, HI), (-87, 87), wait=(1, 24), nowrap=True))
    qs.append(q_seq("n2", N2, (LO, HI), (-87, 87), wait=(1, 24), nowrap=True, fresh="both"))
    qs.append(q_seq("n2s", N2S, (LO, HI), (-87, 87), wait=(1, 24), nowrap=True, fresh="abs"))
    qs.append(q_seq("n1", N1, (59, 61), (-13, 13), key=(seed + 5) % 15, fresh="both"))
    # two notes, wraps allowed: one pitch mid-range, one within 3 of a limit; waits concrete (the re-quantisation
    # after a wrap forks on every duration value)
    qs.append(q_raw_events((-30, 30)))
    qs.append(q_two_keys((-13, 13)))
    qs.append(q_same_relative_object_twice())
    # input pitches outside the playable range are brought inside whatever the direction of the interval
    qs.append(q_seq("n1", N1, (0, 127), (-3, 3), wait=(12, 12)))
    for k in sorted({(seed + 3) % 15, 12, 14}):
        qs.append(q_keys_only(k, (-13, 13)))
    qs.append(q_seq("n2", N2, (LO, HI), (-15, 15), wait=(12, 12), near=[1], mid=[0]))
    qs.append(q_seq("n2s", N2S, (LO, HI), (-13, 13), wait=(12, 12), near=[0, 1]))
    if tier == "thorough":
        qs.append(q_seq("n2", N2, (LO, HI), (-40, 40), wait=(12, 12), near=[1], max_paths=400000))
        qs.append(q_seq("n2s", N2S, (LO, HI), (-130, 130), wait=(12, 12), near=[0, 1]))
        qs.append(q_seq("n3", N3, (LO, HI), (-87, 87), wait=(1, 24), nowrap=True))
        qs.append(q_seq("n3", N3, (LO, HI), (-14, 14), wait=(12, 12), near=[0, 1, 2]))
    return qs
