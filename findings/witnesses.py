"""Concrete witnesses of the defects found on the pinned tree (b02ad34).  Each function returns True
when the defect is present.  Run:  PYTHONPATH=<repo> /venv/bin/python findings/witnesses.py
Used only as documentation / regression aid; the registered checks find these symbolically."""
import sys
from scoda.elements.message import Message
from scoda.elements.bar import Bar
from scoda.enumerations.message_type import MessageType as MT
from scoda.misc.music_theory import Key
from scoda.sequences.sequence import Sequence
from scoda.sequences.relative_sequence import RelativeSequence
from scoda.sequences.absolute_sequence import AbsoluteSequence


def M(t, **kw):
    return Message(message_type=t, **kw)


def rel(msgs):
    return Sequence(relative_sequence=RelativeSequence(msgs))


def w_transpose_key_none():
    return Key.transpose_key(Key.C, 12) is None


def w_normalise_unclosed():
    s = rel([M(MT.NOTE_ON, note=61, velocity=5), M(MT.WAIT, time=5)])
    s.normalise()
    return any(m.message_type == MT.NOTE_ON for m in s.rel._messages)


def w_normalise_orphan_off():
    s = rel([M(MT.NOTE_OFF, note=60), M(MT.WAIT, time=5)])
    s.normalise()
    return any(m.message_type == MT.NOTE_OFF for m in s.rel._messages)


def w_overwrite_stale():
    s = Sequence()
    s.overwrite_relative_messages([M(MT.WAIT, time=3)])
    try:
        s.rel
        return False
    except Exception:
        return True


def w_bar_overlong():
    s = rel([M(MT.NOTE_ON, note=60, velocity=5), M(MT.WAIT, time=100), M(MT.NOTE_OFF, note=60)])
    try:
        Bar(s, 4, 4)
        return True
    except Exception:
        return False


def w_bar_float_pad():
    s = rel([M(MT.NOTE_ON, note=60, velocity=5), M(MT.WAIT, time=12), M(MT.NOTE_OFF, note=60)])
    b = Bar(s, 4, 4)
    return any(isinstance(m.time, float) for m in b.sequence.rel._messages if m.message_type == MT.WAIT)


def w_equals_ignores_onset():
    a = rel([M(MT.WAIT, time=6), M(MT.NOTE_ON, note=60, velocity=5), M(MT.WAIT, time=12), M(MT.NOTE_OFF, note=60)])
    b = rel([M(MT.WAIT, time=12), M(MT.NOTE_ON, note=60, velocity=5), M(MT.WAIT, time=12), M(MT.NOTE_OFF, note=60)])
    return a.equals(b)


def w_tokeniser_velocity_float():
    from scoda.tokenisation.notelike_tokenisation import MultiTrackLargeVocabularyNotelikeTokeniser as T
    t = T(velocity_bins=2)
    return any("." in k for k in t.dictionary)


def w_tokeniser_trailing_dash():
    from scoda.tokenisation.notelike_tokenisation import MultiTrackLargeVocabularyNotelikeTokeniser as T
    t = T(flag_fuse_velocity=False)
    return any(k.endswith("-") for k in t.dictionary)


def w_split_shares_messages():
    s = rel([M(MT.NOTE_ON, note=60, velocity=5), M(MT.WAIT, time=12), M(MT.NOTE_OFF, note=60), M(MT.WAIT, time=12)])
    parts = s.split([12])
    parts[0].transpose(1)
    return s.rel._messages[0].note != 60


def w_split_pitch_keyed():
    s = rel([M(MT.NOTE_ON, channel=0, note=60, velocity=5), M(MT.NOTE_ON, channel=1, note=60, velocity=6),
             M(MT.WAIT, time=12), M(MT.NOTE_OFF, channel=0, note=60), M(MT.NOTE_OFF, channel=1, note=60)])
    parts = s.split([6])
    offs = [m for m in parts[0].rel._messages if m.message_type == MT.NOTE_OFF]
    return len(offs) != 2


def w_quantise_pitch_keyed():
    a = AbsoluteSequence()
    for m in [M(MT.NOTE_ON, channel=0, note=60, velocity=5, time=0), M(MT.NOTE_ON, channel=1, note=60, velocity=5, time=1),
              M(MT.NOTE_OFF, channel=0, note=60, time=12), M(MT.NOTE_OFF, channel=1, note=60, time=13)]:
        a.add_message(m)
    s = Sequence(absolute_sequence=a)
    s.quantise([6])
    return len(s.abs._messages) != 4


def w_quantise_unsorted_pop():
    a = AbsoluteSequence()
    for m in [M(MT.NOTE_ON, note=60, velocity=5, time=4), M(MT.NOTE_ON, note=61, velocity=5, time=4),
              M(MT.NOTE_OFF, note=60, time=5), M(MT.NOTE_OFF, note=61, time=5),
              M(MT.KEY_SIGNATURE, key=Key.C, time=20), M(MT.INTERNAL, time=30)]:
        a.add_message(m)
    s = Sequence(absolute_sequence=a)
    s.quantise([6])
    kinds = [m.message_type for m in s.abs._messages]
    return MT.NOTE_ON in kinds or MT.INTERNAL not in kinds


if __name__ == "__main__":
    for name, f in sorted(globals().items()):
        if name.startswith("w_"):
            try:
                r = f()
            except Exception as ex:
                r = f"raised {type(ex).__name__}: {ex}"
            print(f"{name}: {'DEFECT PRESENT' if r is True else r}")
